package main

import (
	"fmt"
	"go/types"
	"math/big"
	"strings"
)

// Value is one of: *Term (scalars and references), *Ptr, *Slice, *Str, *Iface, *Tuple, *SeqV, nil (no value).
type Value interface{}

// Ptr is an engine-level pointer: a location inside an object.
//   Mem  - memory family prefix: struct type name, "cell<T>", "elem<T>"
//   Ref  - object reference (Int term)
//   Idx  - element index for elem<T> memories (nil for whole array / struct / cell)
//   Path - leaf-path prefix inside the object / element
//   Elem - the Go type pointed to
type Ptr struct {
	Opaque bool // value observed inside a callee whose trace is invisible: location shape unknown
	Mem  string
	Ref  *Term
	Idx  *Term
	Path string
	Elem types.Type
}

type Slice struct {
	Arr, Off, Len, Cap *Term
	Elem               types.Type
}

type Str struct {
	Len *Term
	Arr *Term // Array Idx Byte, zero outside [0,Len)
}

type Iface struct {
	Tag, Val *Term
}

type Tuple struct {
	Elems []Value
}

// SeqV is a ghost byte sequence.
type SeqV struct {
	N   *Term
	At  func(i *Term) *Term
	Src *Slice
}

type leaf struct {
	path string
	sort *Sort
	kind byte // 'r' reference, 'i' integer, 'b' bool, 'a' array(string content), 'l' length/index
	typ  types.Type
}

type Mode int

const (
	ModeBV Mode = iota
	ModeInt
)

func (m Mode) String() string {
	if m == ModeInt {
		return "int"
	}
	return "bv"
}

type TypeSys struct {
	mode  Mode
	ctx   *Ctx
	pkg   *types.Package
	cache map[types.Type][]leaf
}

func (ts *TypeSys) Idx() *Sort {
	if ts.mode == ModeInt {
		return IntSort
	}
	return BVSort(64)
}
func (ts *TypeSys) ByteSort() *Sort {
	if ts.mode == ModeInt {
		return IntSort
	}
	return BVSort(8)
}

func basicWidth(b *types.Basic) (w int, signed bool, ok bool) {
	switch b.Kind() {
	case types.Int8:
		return 8, true, true
	case types.Int16:
		return 16, true, true
	case types.Int32, types.UntypedRune:
		return 32, true, true
	case types.Int64, types.Int, types.UntypedInt:
		return 64, true, true
	case types.Uint8:
		return 8, false, true
	case types.Uint16:
		return 16, false, true
	case types.Uint32:
		return 32, false, true
	case types.Uint64, types.Uint, types.Uintptr:
		return 64, false, true
	}
	return 0, false, false
}

func (ts *TypeSys) intSort(w int) *Sort {
	if ts.mode == ModeInt {
		return IntSort
	}
	return BVSort(w)
}

func (ts *TypeSys) typeName(t types.Type) string {
	return types.TypeString(t, func(p *types.Package) string {
		if p == ts.pkg {
			return ""
		}
		return p.Name()
	})
}

func isOpaqueNamed(t types.Type) bool {
	n, ok := t.(*types.Named)
	if !ok || n.Obj().Pkg() == nil {
		return false
	}
	switch n.Obj().Pkg().Path() {
	case "sync", "sync/atomic":
		return true
	}
	return false
}

func isSeqType(t types.Type) bool {
	n, ok := t.(*types.Named)
	return ok && (n.Obj().Name() == "seq" || n.Obj().Name() == "msnap" || n.Obj().Name() == "ssnap") && n.Obj().Pkg() != nil
}

// SliceSnap is a ghost snapshot of a slice (header and element content).
type SliceSnap struct {
	Len  *Term
	Off  *Term
	Arrs []*Term // per element leaf: content array at snapshot time
	Elem types.Type
}

// MapSnap is a ghost snapshot of a map's content.
type MapSnap struct {
	Present *Term
	Vals    []*Term
	Map     *types.Map
}

// Leaves flattens a Go type into scalar components.
func (ts *TypeSys) Leaves(t types.Type) []leaf {
	if l, ok := ts.cache[t]; ok {
		return l
	}
	var out []leaf
	if isOpaqueNamed(t) {
		ts.cache[t] = nil
		return nil
	}
	if n, ok := t.(*types.Named); ok && n.Obj().Pkg() != nil && n.Obj().Pkg() != ts.pkg {
		if _, isStruct := n.Underlying().(*types.Struct); isStruct {
			// foreign struct (time.Time, ...): one opaque integer component
			out = []leaf{{"", IntSort, 'r', t}}
			ts.cache[t] = out
			return out
		}
	}
	switch u := t.Underlying().(type) {
	case *types.Basic:
		switch {
		case u.Info()&types.IsBoolean != 0:
			out = []leaf{{"", BoolSort, 'b', t}}
		case u.Info()&types.IsInteger != 0:
			w, _, _ := basicWidth(u)
			out = []leaf{{"", ts.intSort(w), 'i', t}}
		case u.Info()&types.IsString != 0:
			out = []leaf{{"len", ts.Idx(), 'l', t}, {"arr", ArrSort(ts.Idx(), ts.ByteSort()), 'a', t}}
		case u.Kind() == types.UnsafePointer:
			out = []leaf{{"", IntSort, 'r', t}}
		case u.Kind() == types.UntypedNil:
			out = []leaf{{"", IntSort, 'r', t}}
		default:
			panic(unsupported("basic type " + u.String()))
		}
	case *types.Pointer, *types.Map, *types.Chan, *types.Signature:
		out = []leaf{{"", IntSort, 'r', t}}
	case *types.Interface:
		out = []leaf{{"tag", IntSort, 'r', t}, {"val", IntSort, 'r', t}}
	case *types.Slice:
		out = []leaf{{"arr", IntSort, 'r', t}, {"off", ts.Idx(), 'l', t}, {"len", ts.Idx(), 'l', t}, {"cap", ts.Idx(), 'l', t}}
	case *types.Struct:
		for i := 0; i < u.NumFields(); i++ {
			f := u.Field(i)
			for _, l := range ts.Leaves(f.Type()) {
				p := f.Name()
				if l.path != "" {
					p += "." + l.path
				}
				out = append(out, leaf{p, l.sort, l.kind, l.typ})
			}
		}
	case *types.Tuple:
		for i := 0; i < u.Len(); i++ {
			for _, l := range ts.Leaves(u.At(i).Type()) {
				p := fmt.Sprintf("%d", i)
				if l.path != "" {
					p += "." + l.path
				}
				out = append(out, leaf{p, l.sort, l.kind, l.typ})
			}
		}
	default:
		panic(unsupported("type " + t.String()))
	}
	ts.cache[t] = out
	return out
}

type unsupportedErr struct{ msg string }

func (u unsupportedErr) Error() string { return "unsupported: " + u.msg }
func unsupported(msg string) error     { return unsupportedErr{msg} }

// Flatten turns a value of type t into its leaf terms.
func (ts *TypeSys) Flatten(t types.Type, v Value) []*Term {
	if isOpaqueNamed(t) {
		return nil
	}
	if n, ok := t.(*types.Named); ok && n.Obj().Pkg() != nil && n.Obj().Pkg() != ts.pkg {
		if _, isStruct := n.Underlying().(*types.Struct); isStruct {
			return []*Term{v.(*Term)}
		}
	}
	switch u := t.Underlying().(type) {
	case *types.Basic:
		if u.Info()&types.IsString != 0 {
			s := v.(*Str)
			return []*Term{s.Len, s.Arr}
		}
		return []*Term{v.(*Term)}
	case *types.Pointer:
		switch p := v.(type) {
		case *Ptr:
			if p.Idx != nil || p.Path != "" {
				panic(unsupported("interior pointer stored in memory or merged: " + ts.typeName(t)))
			}
			return []*Term{p.Ref}
		case *Term:
			return []*Term{p}
		}
		panic(fmt.Sprintf("flatten pointer: %T", v))
	case *types.Map, *types.Chan, *types.Signature:
		return []*Term{v.(*Term)}
	case *types.Interface:
		i := v.(*Iface)
		return []*Term{i.Tag, i.Val}
	case *types.Slice:
		s := v.(*Slice)
		return []*Term{s.Arr, s.Off, s.Len, s.Cap}
	case *types.Struct:
		tv := v.(*Tuple)
		var out []*Term
		for i := 0; i < u.NumFields(); i++ {
			out = append(out, ts.Flatten(u.Field(i).Type(), tv.Elems[i])...)
		}
		return out
	case *types.Tuple:
		tv := v.(*Tuple)
		var out []*Term
		for i := 0; i < u.Len(); i++ {
			out = append(out, ts.Flatten(u.At(i).Type(), tv.Elems[i])...)
		}
		return out
	}
	panic(unsupported("flatten " + t.String()))
}

// Unflatten rebuilds a value of type t from leaf terms (consumes from *ls).
func (ts *TypeSys) Unflatten(t types.Type, ls *[]*Term) Value {
	take := func() *Term {
		x := (*ls)[0]
		*ls = (*ls)[1:]
		return x
	}
	if isOpaqueNamed(t) {
		return &Tuple{}
	}
	if n, ok := t.(*types.Named); ok && n.Obj().Pkg() != nil && n.Obj().Pkg() != ts.pkg {
		if _, isStruct := n.Underlying().(*types.Struct); isStruct {
			return take()
		}
	}
	switch u := t.Underlying().(type) {
	case *types.Basic:
		if u.Info()&types.IsString != 0 {
			l := take()
			a := take()
			return &Str{l, a}
		}
		return take()
	case *types.Pointer:
		return ts.PtrTo(u.Elem(), take())
	case *types.Map, *types.Chan, *types.Signature:
		return take()
	case *types.Interface:
		a := take()
		b := take()
		return &Iface{a, b}
	case *types.Slice:
		a, o, l, c := take(), take(), take(), take()
		return &Slice{a, o, l, c, u.Elem()}
	case *types.Struct:
		tv := &Tuple{}
		for i := 0; i < u.NumFields(); i++ {
			tv.Elems = append(tv.Elems, ts.Unflatten(u.Field(i).Type(), ls))
		}
		return tv
	case *types.Tuple:
		tv := &Tuple{}
		for i := 0; i < u.Len(); i++ {
			tv.Elems = append(tv.Elems, ts.Unflatten(u.At(i).Type(), ls))
		}
		return tv
	}
	panic(unsupported("unflatten " + t.String()))
}

// MemFor gives the memory family that holds objects of type t.
func (ts *TypeSys) MemFor(t types.Type) string {
	if _, ok := t.Underlying().(*types.Struct); ok {
		if _, named := t.(*types.Named); named {
			return ts.typeName(t)
		}
		return "struct<" + ts.typeName(t) + ">"
	}
	if a, ok := t.Underlying().(*types.Array); ok {
		return "elem<" + ts.typeName(a.Elem()) + ">"
	}
	return "cell<" + ts.typeName(t) + ">"
}

func (ts *TypeSys) ElemMem(elem types.Type) string { return "elem<" + ts.typeName(elem) + ">" }

// PtrTo makes a pointer to a whole object of type elem.
func (ts *TypeSys) PtrTo(elem types.Type, ref *Term) *Ptr {
	return &Ptr{Mem: ts.MemFor(elem), Ref: ref, Elem: elem}
}

func joinPath(a, b string) string {
	if a == "" {
		return b
	}
	if b == "" {
		return a
	}
	return a + "." + b
}

// Zero value of a type.
func (ts *TypeSys) Zero(t types.Type) Value {
	ls := ts.Leaves(t)
	var terms []*Term
	for _, l := range ls {
		terms = append(terms, ts.zeroOf(l.sort))
	}
	if isSeqType(t) {
		return &SeqV{N: ts.IdxConst(0), At: func(*Term) *Term { return ts.zeroOf(ts.ByteSort()) }}
	}
	return ts.Unflatten(t, &terms)
}

func (ts *TypeSys) zeroOf(s *Sort) *Term {
	switch s.K {
	case SBool:
		return ts.ctx.F
	case SInt:
		return ts.ctx.Int(0)
	case SBV:
		return ts.ctx.BV(0, s.W)
	case SArr:
		return ts.ctx.ConstArr(s, ts.zeroOf(s.Elem))
	}
	panic("zeroOf")
}

func (ts *TypeSys) IdxConst(v int64) *Term {
	if ts.mode == ModeInt {
		return ts.ctx.Int(v)
	}
	return ts.ctx.BV(v, 64)
}

func (ts *TypeSys) NumConst(v *big.Int, s *Sort) *Term {
	if s.K == SInt {
		return ts.ctx.IntBig(v)
	}
	return ts.ctx.BVBig(v, s.W)
}

// FreshValue creates an unconstrained symbolic value of type t.
func (ts *TypeSys) FreshValue(prefix string, t types.Type) Value {
	if isSeqType(t) {
		panic(unsupported("fresh seq value"))
	}
	ls := ts.Leaves(t)
	var terms []*Term
	for _, l := range ls {
		n := prefix
		if l.path != "" {
			n += "." + l.path
		}
		terms = append(terms, ts.ctx.Fresh(n, l.sort))
	}
	return ts.Unflatten(t, &terms)
}

func showValue(c *Ctx, v Value) string {
	switch v := v.(type) {
	case nil:
		return "<none>"
	case *Term:
		return c.Show(v)
	case *Ptr:
		s := fmt.Sprintf("&%s[%s]", v.Mem, c.Show(v.Ref))
		if v.Idx != nil {
			s += "[" + c.Show(v.Idx) + "]"
		}
		if v.Path != "" {
			s += "." + v.Path
		}
		return s
	case *Slice:
		return fmt.Sprintf("slice(arr=%s off=%s len=%s cap=%s)", c.Show(v.Arr), c.Show(v.Off), c.Show(v.Len), c.Show(v.Cap))
	case *Str:
		return fmt.Sprintf("str(len=%s)", c.Show(v.Len))
	case *Iface:
		return fmt.Sprintf("iface(%s,%s)", c.Show(v.Tag), c.Show(v.Val))
	case *Tuple:
		var ss []string
		for _, e := range v.Elems {
			ss = append(ss, showValue(c, e))
		}
		return "(" + strings.Join(ss, ", ") + ")"
	case *SeqV:
		return "seq(len=" + c.Show(v.N) + ")"
	}
	return fmt.Sprintf("%T", v)
}
