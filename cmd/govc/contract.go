package main

import (
	"os"
	"fmt"
	"strconv"
	"go/token"
	"go/types"
	"math/big"
	"sort"
	"strings"

	"golang.org/x/tools/go/ssa"
)

// ---------- clause evaluation ----------

// clauseArgs builds the argument list of a generated clause function from name bindings.
func (m *Machine) clauseArgs(st *State, c *Clause, bind map[string]Value) ([]Value, *ssa.Function, bool) {
	if c.FnName == "" {
		return nil, nil, false
	}
	gf := m.P.Funcs[c.FnName]
	if gf == nil {
		m.problem("%s: generated clause function %s missing", c.Line, c.FnName)
		return nil, nil, false
	}
	var args []Value
	for i, p := range gf.Params {
		v, ok := bind[p.Name()]
		if !ok {
			m.problem("%s: no binding for %q while evaluating clause", c.Line, p.Name())
			return nil, nil, false
		}
		_ = i
		args = append(args, v)
	}
	return args, gf, true
}

func (m *Machine) evalClause(st *State, c *Clause, bind map[string]Value) (Value, bool) {
	args, gf, ok := m.clauseArgs(st, c, bind)
	if !ok {
		return nil, false
	}
	rets := m.pureCall(st, gf, args, nil)
	return rets[0], true
}

// ---------- verification of one function ----------

func (m *Machine) bindParams(st *State, fn *ssa.Function, args []Value, fvals []Value) map[string]Value {
	bind := map[string]Value{}
	for i := range fn.Params {
		bind[paramNameOf(fn, i)] = args[i]
	}
	for i, fv := range fn.FreeVars {
		v := fvals[i]
		name := freeVarNameOf(fn, fv)
		if p, ok := v.(*Ptr); ok {
			if pt, isPtr := fv.Type().(*types.Pointer); isPtr {
				if keepPtrFV(pt.Elem()) {
					bind[name] = p
					continue
				}
				bind[name] = m.Load(st, p)
				bind["&"+name] = p
				continue
			}
		}
		bind[name] = v
	}
	return bind
}

func (m *Machine) markOld(v Value) {
	switch x := v.(type) {
	case *Term:
		if x.sort == IntSort && x.op == "var" {
			x.rc = rcOld
		}
	case *Ptr:
		m.markOld(x.Ref)
	case *Slice:
		m.markOld(x.Arr)
	case *Iface:
		m.markOld(x.Val)
	case *Tuple:
		for _, e := range x.Elems {
			m.markOld(e)
		}
	}
}

func (m *Machine) inputLeaves(name string, t types.Type, v Value) {
	if isSeqType(t) {
		return
	}
	defer func() { recover() }()
	terms := m.ts.Flatten(t, v)
	for i, l := range m.ts.Leaves(t) {
		n := name
		if l.path != "" {
			n += "." + l.path
		}
		m.inputs = append(m.inputs, namedTerm{n, terms[i]})
	}
}

// Verify runs the function under its contract and returns the obligations.
func (m *Machine) Verify() {
	for iter := 0; iter < 12; iter++ {
		m.restart = false
		m.obls = nil
		m.oblSeen = map[string]bool{}
		m.coverPCs = nil
		m.anteCover = map[string][][]*Term{}
		m.anteOrder = nil
		m.anteTags = map[string][]string{}
		m.retPaths = 0
		m.paths = 0
		m.verifyOnce()
		if !m.restart {
			return
		}
	}
	m.problem("loop havoc sets did not stabilise: %v", m.loopHavoc)
}

func (m *Machine) verifyOnce() {
	fn := m.fn
	st := &State{heap: map[string]*Term{}, locks: map[string]int{}, chanQ: map[int][]chanQuery{}}
	var args []Value
	m.inputs = nil
	for i, p := range fn.Params {
		n := paramNameOf(fn, i)
		v := m.ts.FreshValue("in."+n, p.Type())
		m.markOld(v)
		m.assumeWellFormed(st, p.Type(), v)
		m.inputLeavesDeep(st, n, p.Type(), v, 0)
		args = append(args, v)
	}
	var fvals []Value
	for _, fv := range fn.FreeVars {
		v := m.ts.FreshValue("fv."+fv.Name(), fv.Type())
		m.markOld(v)
		m.assumeWellFormed(st, fv.Type(), v)
		if p, ok := v.(*Ptr); ok {
			// captured variables live in cells that exist for as long as the closure does
			st.assume(m.ctx.Neq(p.Ref, m.ctx.Int(0)))
		}
		fvals = append(fvals, v)
	}
	// distinct captured variables are distinct cells
	for i := range fvals {
		for j := i + 1; j < len(fvals); j++ {
			pi, ok1 := fvals[i].(*Ptr)
			pj, ok2 := fvals[j].(*Ptr)
			if ok1 && ok2 && pi.Mem == pj.Mem {
				st.assume(m.ctx.Neq(pi.Ref, pj.Ref))
			}
		}
	}
	fr := m.pushFrame(st, fn, args, fvals, nil, 2)
	fr.entry = m.bindParams(st, fn, args, fvals)
	fr.entry["$nfresh"] = m.ctx.Int(int64(m.ctx.nfresh))
	fr.lets = map[string]Value{}
	m.entryState = st
	bind := map[string]Value{}
	for k, v := range fr.entry {
		bind[k] = v
	}
	if m.fc != nil {
		for _, l := range m.fc.Lets {
			v, ok := m.evalClause(st, l, bind)
			if !ok {
				return
			}
			fr.lets[l.Name] = v
			bind[l.Name] = v
		}
		reqs := m.fc.Requires
		if m.reject != nil {
			reqs = []*Clause{m.reject}
		}
		for _, r := range reqs {
			m.assumingPre = true
			v, ok := m.evalClause(st, r, bind)
			m.assumingPre = false
			if !ok {
				return
			}
			st.assume(v.(*Term))
			m.learnDistinct(v.(*Term))
		}
	}
	m.assignLocs = nil
	if m.fc != nil && m.fc.HasAssigns {
		for _, a := range m.fc.Assigns {
			m.assignLocs = append(m.assignLocs, m.evalLoc(st, m.fc, relName(fn), a, bind)...)
		}
	}
	fr.heap0 = cloneHeap(st.heap)
	m.entryLocks = map[string]int{}
	for k, v := range st.locks {
		m.entryLocks[k] = v
	}
	// vacuity: the precondition must be satisfiable
	m.obls = append(m.obls, &Obligation{Func: relName(fn), Name: relName(fn) + "#cover.requires", Kind: "cover", Cover: true,
		PC: append([]*Term{}, st.pc...), Goal: m.ctx.T, ctx: m.ctx, Tags: m.allTags(), Desc: "requires + type invariants are satisfiable", Inputs: m.inputs})
	m.work = []*State{st}
	for len(m.work) > 0 {
		s := m.work[len(m.work)-1]
		m.work = m.work[:len(m.work)-1]
		m.paths++
		if m.paths > m.maxPaths {
			m.problem("path cap %d exceeded in %s", m.maxPaths, relName(fn))
			return
		}
		m.run(s)
	}
	if m.restart {
		return
	}
	for _, name := range m.anteOrder {
		alts := m.anteCover[name]
		o := &Obligation{Func: relName(fn), Name: relName(fn) + "#" + name, Kind: "cover.any", Cover: true,
			PC: []*Term{m.ctx.F}, Goal: m.ctx.T, ctx: m.ctx, Tags: m.anteTags[name], Desc: "the antecedent of this clause is satisfiable on some path (vacuity check)", Inputs: m.inputs}
		if len(o.Tags) == 0 {
			o.Tags = m.allTags()
		}
		if len(alts) == 0 {
			alts = [][]*Term{{m.ctx.F}}
		}
		o.Alts = alts
		m.obls = append(m.obls, o)
	}
	if m.fc != nil && len(m.fc.Ensures) > 0 {
		// at least one return path must be feasible
		o := &Obligation{Func: relName(fn), Name: relName(fn) + "#cover.return", Kind: "cover.any", Cover: true,
			PC: []*Term{m.ctx.F}, Goal: m.ctx.T, ctx: m.ctx, Tags: m.allTags(), Desc: "some path reaches a return", Inputs: m.inputs}
		o.Alts = m.coverPCs
		m.obls = append(m.obls, o)
	}
}

func (m *Machine) allTags() []string {
	set := map[string]bool{}
	if m.fc != nil {
		for _, p := range m.fc.Props {
			set[p] = true
		}
		for _, p := range m.fc.SafeTags {
			set[p] = true
		}
		for _, e := range m.fc.Ensures {
			for _, t := range e.Tags {
				set[t] = true
			}
		}
		for _, l := range m.fc.Loops {
			for _, e := range append(append(append([]*Clause{}, l.Invariants...), l.Iters...), l.Exits...) {
				for _, t := range e.Tags {
					set[t] = true
				}
			}
		}
	}
	var out []string
	for k := range set {
		out = append(out, k)
	}
	sort.Strings(out)
	return out
}

func unionTags(a, b []string) []string {
	set := map[string]bool{}
	for _, x := range a {
		set[x] = true
	}
	for _, x := range b {
		set[x] = true
	}
	var out []string
	for k := range set {
		out = append(out, k)
	}
	sort.Strings(out)
	return out
}

// unwindTags: every property for which the function under verification has obligations.
func (m *Machine) unwindTags() []string {
	set := map[string]bool{"C06": true, "C10": true, "C11": true}
	for _, t := range m.allTags() {
		set[t] = true
	}
	var out []string
	for k := range set {
		out = append(out, k)
	}
	sort.Strings(out)
	return out
}

func (m *Machine) resultBindings(fn *ssa.Function, sig *types.Signature, rets []Value, bind map[string]Value) {
	if sig.Results().Len() == 1 {
		bind["result"] = rets[0]
	} else {
		for i, r := range rets {
			bind[fmt.Sprintf("result%d", i)] = r
		}
	}
}

func (m *Machine) currentBindings(st *State, fr *Frame) map[string]Value {
	bind := map[string]Value{}
	for k, v := range fr.entry {
		bind[k] = v
	}
	// captured variables: current cell content
	for i, fv := range fr.fn.FreeVars {
		if p, ok := fr.fvals[i].(*Ptr); ok {
			if pt, isPtr := fv.Type().(*types.Pointer); isPtr {
				if keepPtrFV(pt.Elem()) {
					bind[freeVarNameOf(fr.fn, fv)] = p
				} else {
					bind[freeVarNameOf(fr.fn, fv)] = m.Load(st, p)
				}
			}
		}
	}
	for k, v := range fr.lets {
		bind[k] = v
	}
	return bind
}

func (m *Machine) topReturn(st *State, fr *Frame, rets []Value) {
	m.retPaths++
	m.coverPCs = append(m.coverPCs, append([]*Term{}, st.pc...))
	if m.fc == nil {
		return
	}
	if m.reject != nil {
		m.recordObl(st, fr, "reject", m.reject.Label, m.ctx.F, m.reject.Tags,
			"for inputs with ("+m.reject.Raw+") the function must not return normally (it panics instead)", false)
		return
	}
	// lock balance: the function returns holding exactly the mutexes it was entered with
	if !st.pure {
		var extra, missing []string
		for k, v := range st.locks {
			if v > 0 && m.entryLocks[k] < v {
				extra = append(extra, k)
			}
		}
		for k, v := range m.entryLocks {
			if v > 0 && st.locks[k] < v {
				missing = append(missing, k)
			}
		}
		sort.Strings(extra)
		sort.Strings(missing)
		okk := len(extra) == 0 && len(missing) == 0
		m.recordObl(st, fr, "guard", "lockbalance", m.ctx.Bool(okk), append([]string{"C10", "C11"}, m.safeTagsFor(fr.fn)...),
			fmt.Sprintf("the function returns with the mutexes it was entered with (still held: %v, released but not acquired here: %v)", extra, missing), okk)
	}
	bind := m.currentBindings(st, fr)
	m.resultBindings(fr.fn, fr.fn.Signature, rets, bind)
	if m.fc.FreshResult {
		// callers assume reference results are nil or allocated by this call (slices: offset 0)
		base := m.ctx.IntBig(new(big.Int).Add(freshBase, big.NewInt(int64(m.entryFresh(st)))))
		for i, r := range rets {
			var g *Term
			switch x := r.(type) {
			case *Ptr:
				if x.Idx == nil && x.Path == "" {
					g = m.ctx.Or(m.ctx.Eq(x.Ref, m.ctx.Int(0)), m.ctx.ILt(base, x.Ref))
				}
			case *Slice:
				g = m.ctx.Or(m.ctx.Eq(x.Len, m.ts.IdxConst(0)), m.ctx.And(m.ctx.ILt(base, x.Arr), m.ctx.Eq(x.Off, m.ts.IdxConst(0))))
			}
			if g != nil {
				m.recordOrOblige(st, fr, "post", fmt.Sprintf("freshresult.%d", i), g, m.allTags(), "freshresult: result is nil or newly allocated (callers rely on it)")
			}
		}
	}
	for i, e := range m.fc.Ensures {
		if m.onlyProp != "" {
			tg := e.Tags
			if len(tg) == 0 {
				tg = m.fc.Props
			}
			if !hasTag(tg, m.onlyProp) {
				continue
			}
		}
		// locals named in the clause: their value when the function returns
		if blk := m.curBlock(fr); blk != nil {
			b2 := map[string]Value{}
			for k, v := range bind {
				b2[k] = v
			}
			need := false
			for _, n := range paramNames(e) {
				if _, have := b2[n]; !have {
					need = true
				}
			}
			if need {
				func() {
					defer func() { recover() }()
					m.localBindingsAt(st, fr, blk, blk, paramNames(e), b2)
				}()
				bind = b2
			}
		}
		v, ok := m.evalClause(st, e, bind)
		if !ok {
			continue
		}
		label := e.Label
		if label == "" {
			label = fmt.Sprint(i)
		}
		tags := e.Tags
		if len(tags) == 0 {
			tags = m.fc.Props
		}
		if m.onlyProp != "" && !hasTag(tags, m.onlyProp) {
			continue
		}
		m.noteAntecedent(st, e, "cover.post."+label, bind)
		m.recordOrOblige(st, fr, "post", label, v.(*Term), tags, e.Raw+"  ["+e.Line+"]")
	}
}

func (m *Machine) recordOrOblige(st *State, fr *Frame, kind, detail string, goal *Term, tags []string, desc string) {
	if goal.IsTrue() {
		m.recordObl(st, fr, kind, detail, goal, tags, desc, true)
		return
	}
	m.recordObl(st, fr, kind, detail, goal, tags, desc, false)
}

// ---------- modular calls ----------

func (m *Machine) applyContract(st *State, fr *Frame, instr ssa.Instruction, fc *FuncContract, name string, fn *ssa.Function, sig *types.Signature, args []Value, fvals []Value, fval *Term) []Value {
	m.usedContracts[name] = true
	if fc.Trusted {
		m.trusted["contract of "+name+" (trusted, body not verified)"] = true
	}
	if fc.Role != "" && !st.pure {
		// a function (or function value) that runs in a goroutine role may only be called from that role
		cur := ""
		if m.fc != nil {
			cur = m.fc.Role
		}
		okk := cur == fc.Role
		m.recordObl(st, fr, "guard", fmt.Sprintf("role.%s.%d", name, m.ordinal(fr.fn, instr, "")), m.ctx.Bool(okk), []string{"C10"},
			fmt.Sprintf("%s runs in role %q; it is called here from role %q", name, fc.Role, cur), okk)
	}
	bind := map[string]Value{}
	if fn != nil {
		if len(fn.FreeVars) > 0 && fvals == nil {
			panic(unsupported("contract call of closure without bindings: " + name))
		}
		bind = m.bindParams(st, fn, args, fvals)
	} else {
		// fntype: parameter names from the shape declaration
		parts := strings.SplitN(fc.Shape, "->", 2)
		i := 0
		for _, f := range splitTop(parts[0], ',') {
			f = strings.TrimSpace(f)
			if f == "" {
				continue
			}
			nm := f[:strings.IndexAny(f, " \t")]
			if i < len(args) {
				bind[nm] = args[i]
			} else if v, ok := m.shapeExtra(st, fr, nm); ok {
				bind[nm] = v
			} else {
				// context object not in scope here (e.g. a retry handle run outside a RetryClient):
				// some arbitrary existing object of that type
				tn := strings.TrimSpace(f[strings.IndexAny(f, " \t"):])
				if strings.HasPrefix(tn, "*") {
					if obj := m.ts.pkg.Scope().Lookup(strings.TrimPrefix(tn, "*")); obj != nil {
						pt := types.NewPointer(obj.Type())
						v := m.ts.FreshValue("ctxobj."+nm, pt)
						m.markOld(v)
						m.assumeWellFormed(st, pt, v)
						st.assume(m.ctx.Neq(v.(*Ptr).Ref, m.ctx.Int(0)))
						bind[nm] = v
					}
				}
			}
			i++
		}
	}
	ord := 0
	if instr != nil {
		ord = m.ordinal(fr.fn, instr, "")
	}
	for _, l := range fc.Lets {
		v, ok := m.evalClause(st, l, bind)
		if !ok {
			continue
		}
		bind[l.Name] = v
	}
	if !st.pure {
		for i, r := range fc.Requires {
			v, ok := m.evalClause(st, r, bind)
			if !ok {
				continue
			}
			label := r.Label
			if label == "" {
				label = fmt.Sprint(i)
			}
			tags := r.Tags
			if len(tags) == 0 {
				tags = fc.Props
			}
			short := name
			m.oblige(st, fr, "pre", fmt.Sprintf("%s.%d.%s", short, ord, label), v.(*Term), tags, "precondition of "+name+": "+r.Raw+"  ["+r.Line+"]")
		}
	}
	// objects handed to the callee may come back in its results / assigned locations
	st.aliasOK = map[int]bool{}
	defer func() { st.aliasOK = nil }()
	argType := func(i int) types.Type {
		if sig.Recv() != nil {
			if i == 0 {
				return sig.Recv().Type()
			}
			i--
		}
		if i < sig.Params().Len() {
			return sig.Params().At(i).Type()
		}
		if sig.Variadic() && sig.Params().Len() > 0 {
			return sig.Params().At(sig.Params().Len() - 1).Type()
		}
		return nil
	}
	for i, a := range args {
		if t := argType(i); t != nil {
			var refs []*Term
			m.collectRefs(t, a, &refs)
			for _, r := range refs {
				m.markAliasOK(st, r, 0)
			}
		}
	}
	// the call event: argument contents as they are at the call
	evArgs := args
	if fval != nil {
		// dynamic call: the invoked function value is recorded after the arguments
		evArgs = append(append([]Value{}, args...), fval)
	}
	callEv := m.newEvent(st, name, evArgs)
	// the callee may have allocated objects we do not see: reserve their identifiers first, so that the
	// heap after the call (havoc below) is younger than they are
	st.opaqueNfresh = m.ctx.nfresh
	m.ctx.nfresh += 16
	// effects
	if !fc.Pure && !st.pure {
		m.contractHavoc(st, fr, fc, name, bind, fn, args)
	}
	// results: these may retain the callee's arguments
	retains := !fc.Pure && len(fc.Assigns) > 0
	for i := 0; i < sig.Results().Len(); i++ {
		if m.typeHasRefs(sig.Results().At(i).Type(), 0) {
			retains = true
		}
	}
	if retains && !st.pure {
		for i, a := range args {
			if t := argType(i); t != nil {
				m.escapeValue(st, t, a)
			}
		}
		for _, v := range fvals {
			if p, ok := v.(*Ptr); ok {
				m.escapeRef(st, p.Ref)
			}
		}
	}
	var rets []Value
	definable := map[int]bool{}
	for i := 0; i < sig.Results().Len(); i++ {
		rt := sig.Results().At(i).Type()
		v := m.ts.FreshValue("r."+mangle(name), rt)
		if fc.FreshResult {
			switch x := v.(type) {
			case *Slice:
				ref := m.newRef(st, x.Elem, m.ts.ElemMem(x.Elem), true, "result of "+name)
				for _, l := range m.ts.Leaves(x.Elem) {
					// content unconstrained until defined by an ensures clause
					nm := leafName(m.ts.ElemMem(x.Elem), l.path)
					arr := m.heapGet(st, nm, m.memSort(nm, l, true))
					st.heap[nm] = m.ctx.Store(arr, ref, m.ctx.Fresh("rc", ArrSort(m.ts.Idx(), l.sort)))
				}
				x.Arr = ref
				x.Off = m.ts.IdxConst(0)
				definable[ref.id] = true
			case *Ptr:
				if x.Idx == nil && x.Path == "" {
					p := m.freshObject(st, x.Elem, "result of "+name)
					isNil := m.ctx.Fresh("nil", BoolSort)
					x.Ref = m.ctx.Ite(isNil, m.ctx.Int(0), p.Ref)
				}
			}
		}
		m.assumeWellFormed(st, rt, v)
		rets = append(rets, v)
	}
	m.resultBindings(fn, sig, rets, bind)
	saved := st.definable
	st.definable = definable
	m.ctx.nfresh++
	st.opaque = m.ctx.nfresh
	defer func() { st.opaque = 0 }()
	for ei, e := range fc.Ensures {
		// clauses that mention locals of the callee are internal to its proof: not part of what a caller may assume
		internal := false
		for _, n := range paramNames(e) {
			if _, have := bind[n]; !have {
				internal = true
			}
		}
		if internal {
			continue
		}
		v, ok := m.evalClause(st, e, bind)
		if !ok {
			continue
		}
		t := v.(*Term)
		if d, isDef := st.defs[t.id]; isDef && d.marker == t {
			// definitional: result content := spec sequence
			src := d.a.Src
			for _, r := range rets {
				if s, ok := r.(*Slice); ok && s.Arr == src.Arr {
					st.assume(m.ctx.Eq(s.Len, d.b.N))
					l := m.ts.Leaves(s.Elem)[0]
					i := m.ctx.Bound("d", m.ts.Idx())
					off := s.Off
					body := d.b.At(m.idxSub(i, off))
					m.setElemArr(st, s.Elem, s.Arr, l, m.ctx.Lambda(i, body))
				}
			}
			delete(definable, src.Arr.id)
			st.defDeps = append(append([]string{}, st.defDeps...), fmt.Sprintf("%s|%d", name, ei))
			continue
		}
		t = m.resolveDefs(st, t)
		if m.origins != nil {
			m.origins[t.id] = append(m.origins[t.id], fmt.Sprintf("%s|%d", name, ei))
		}
		st.assume(t)
	}
	st.definable = saved
	callEv.Rets = rets
	st.events = append(st.events, callEv)
	m.trace(st, "ev:"+name)
	return rets
}

// resolveDefs replaces unused definitional markers by the real sequence equalities.
func (m *Machine) resolveDefs(st *State, t *Term) *Term {
	if st.defs == nil {
		return t
	}
	for _, d := range st.defs {
		if d.marker != nil && m.occurs(t, d.marker) {
			t = m.ctx.SubstVar(t, d.marker, m.seqEqTerm(d.a, d.b))
		}
	}
	return t
}

func (m *Machine) occurs(t, v *Term) bool {
	seen := map[int]bool{}
	var rec func(t *Term) bool
	rec = func(t *Term) bool {
		if t == v {
			return true
		}
		if seen[t.id] {
			return false
		}
		seen[t.id] = true
		for _, a := range t.args {
			if rec(a) {
				return true
			}
		}
		return false
	}
	return rec(t)
}

// freshObject allocates an object whose fields are unconstrained (callee-allocated result).
func (m *Machine) freshObject(st *State, t types.Type, site string) *Ptr {
	mem := m.ts.MemFor(t)
	r := m.newRef(st, t, mem, false, site)
	for _, l := range m.ts.Leaves(t) {
		name := leafName(mem, l.path)
		arr := m.heapGet(st, name, m.memSort(name, l, false))
		st.heap[name] = m.ctx.Store(arr, r, m.ctx.Fresh("fo", l.sort))
	}
	p := &Ptr{Mem: mem, Ref: r, Elem: t}
	v := m.Load(st, p)
	m.assumeWellFormed(st, t, v)
	return p
}

func (m *Machine) shapeExtra(st *State, fr *Frame, name string) (Value, bool) {
	// extra fntype parameters bound from the caller's entry bindings (e.g. the RetryClient `c`)
	for i := len(st.frames) - 1; i >= 0; i-- {
		if st.frames[i].entry != nil {
			if v, ok := st.frames[i].entry[name]; ok {
				return v, true
			}
		}
	}
	return nil, false
}

// contractHavoc applies the frame of a callee: `assigns` locations get fresh values.
func (m *Machine) contractHavoc(st *State, fr *Frame, fc *FuncContract, name string, bind map[string]Value, fn *ssa.Function, args []Value) {
	if !fc.HasAssigns {
		panic(unsupported("contract of " + name + " has no assigns clause (write `assigns nothing` or `pure`)"))
	}
	// evaluate every location in the pre-state first, then apply the havoc
	type locA struct {
		p *Ptr
		a string
	}
	var all []locA
	for _, a := range fc.Assigns {
		for _, p := range m.evalLoc(st, fc, name, a, bind) {
			all = append(all, locA{p, a})
		}
	}
	for _, la := range all {
		p, a := la.p, la.a
		m.frameCheck(st, fr, nil, p, "callee "+name+" assigns "+a)
		if p.Ref == nil {
			// every object of the type: the whole field memory is unknown afterwards
			for _, l := range m.ptrLeaves(p) {
				m.havocName(st, leafName(p.Mem, l.path), false, nil)
			}
			continue
		}
		if p.Path == "*" {
			for _, l := range m.ts.Leaves(p.Elem) {
				m.setElemArr(st, p.Elem, p.Ref, l, m.ctx.Fresh("hv.elems", ArrSort(m.ts.Idx(), l.sort)))
			}
			continue
		}
		m.havocLoc(st, p, "hv."+mangle(name))
	}
	m.timePasses(st)
}

// evalLoc evaluates an assigns expression of the restricted form  root(.field)*  or  *root
// where root is a parameter / captured variable of the callee.
func (m *Machine) evalLoc(st *State, fc *FuncContract, name, expr string, bind map[string]Value) []*Ptr {
	e := strings.TrimSpace(expr)
	if strings.HasPrefix(e, "any ") {
		// any T.path: that field of every object of type T
		f := strings.TrimSpace(e[4:])
		tn, path, _ := strings.Cut(f, ".")
		obj := m.ts.pkg.Scope().Lookup(tn)
		if obj == nil {
			m.problem("%s: assigns %q: unknown type", fc.Line, expr)
			return nil
		}
		cur := &Ptr{Mem: tn, Ref: nil, Elem: obj.Type()}
		for _, fld := range strings.Split(path, ".") {
			if fld == "" {
				continue
			}
			stt, ok := cur.Elem.Underlying().(*types.Struct)
			found := false
			if ok {
				for j := 0; j < stt.NumFields(); j++ {
					if stt.Field(j).Name() == fld {
						cur = &Ptr{Mem: tn, Path: joinPath(cur.Path, fld), Elem: stt.Field(j).Type()}
						found = true
					}
				}
			}
			if !found {
				m.problem("%s: assigns %q: no field %q", fc.Line, expr, fld)
				return nil
			}
		}
		return []*Ptr{cur}
	}
	if strings.HasSuffix(e, "[*]") {
		// all elements of a slice-valued expression
		base := strings.TrimSpace(strings.TrimSuffix(e, "[*]"))
		for strings.HasPrefix(base, "(") && strings.HasSuffix(base, ")") {
			base = strings.TrimSpace(base[1 : len(base)-1])
		}
		var sl *Slice
		if v, ok := bind[base]; ok {
			sl, _ = v.(*Slice)
		} else {
			for _, p := range m.evalLoc(st, fc, name, base, bind) {
				if x, ok := m.Load(st, p).(*Slice); ok {
					sl = x
				}
			}
		}
		if sl == nil {
			m.problem("%s: assigns expression %q is not a slice", fc.Line, expr)
			return nil
		}
		return []*Ptr{{Mem: m.ts.ElemMem(sl.Elem), Ref: sl.Arr, Path: "*", Elem: sl.Elem}}
	}
	deref := false
	if strings.HasPrefix(e, "*") {
		deref = true
		e = strings.TrimSpace(e[1:])
	}
	parts := strings.Split(e, ".")
	v, ok := bind[parts[0]]
	if !ok {
		m.problem("%s: assigns root %q unknown in contract of %s", fc.Line, parts[0], name)
		return nil
	}
	if deref {
		p, ok := v.(*Ptr)
		if !ok || len(parts) != 1 {
			m.problem("%s: assigns expression %q not supported", fc.Line, expr)
			return nil
		}
		return []*Ptr{p}
	}
	p, ok := v.(*Ptr)
	if !ok {
		if cell, isCell := bind["&"+parts[0]]; isCell && len(parts) == 1 {
			return []*Ptr{cell.(*Ptr)}
		}
		m.problem("%s: assigns root %q is not a pointer in contract of %s", fc.Line, parts[0], name)
		return nil
	}
	cur := p
	for i, f := range parts[1:] {
		stt, ok := cur.Elem.Underlying().(*types.Struct)
		if !ok {
			m.problem("%s: assigns path %q: %s is not a struct", fc.Line, expr, cur.Elem)
			return nil
		}
		found := false
		for j := 0; j < stt.NumFields(); j++ {
			if stt.Field(j).Name() == f {
				cur = &Ptr{Mem: cur.Mem, Ref: cur.Ref, Idx: cur.Idx, Path: joinPath(cur.Path, f), Elem: stt.Field(j).Type()}
				found = true
				break
			}
		}
		if !found {
			m.problem("%s: assigns path %q: no field %q", fc.Line, expr, f)
			return nil
		}
		if i < len(parts)-2 {
			// intermediate pointer fields are dereferenced
			if _, isPtr := cur.Elem.Underlying().(*types.Pointer); isPtr {
				cur = m.Load(st, cur).(*Ptr)
			}
		}
	}
	return []*Ptr{cur}
}

// ---------- loops ----------

func (m *Machine) loopKey(fn *ssa.Function, ord int) string {
	return fmt.Sprintf("%s#%d", relName(fn), ord)
}

func (m *Machine) loopSpec(fn *ssa.Function, ord int) *LoopSpec {
	fc := m.P.Contracts.Funcs[relName(fn)]
	if fc == nil {
		return nil
	}
	return fc.Loops[ord]
}

// localBindings resolves source-level variable names to the SSA values live at a loop header.
func (m *Machine) localBindings(st *State, fr *Frame, header *ssa.BasicBlock, names []string, bind map[string]Value) {
	m.localBindingsAt(st, fr, header, header, names, bind)
}

// localBindingsAt resolves names as seen at block `at` (phis of `header` first).
func (m *Machine) localBindingsAt(st *State, fr *Frame, at, header *ssa.BasicBlock, names []string, bind map[string]Value) {
	for _, n := range names {
		if _, ok := bind[n]; ok {
			// a parameter that lives in a cell (captured by a nested closure): loop clauses see its current value
			if cell := m.paramCell(fr, n); cell != nil {
				bind[n] = m.Load(st, cell)
			}
			continue
		}
		// rangeindexN: the index variable of range loop number N of this function
		if strings.HasPrefix(n, "rangeindex") && len(n) > len("rangeindex") {
			if k, err := strconv.Atoi(n[len("rangeindex"):]); err == nil {
				li := m.loopInfoOf(fr.fn)
				if k >= 1 && k <= len(li.headers) {
					for _, ins := range li.headers[k-1].Instrs {
						if phi, ok := ins.(*ssa.Phi); ok && phi.Comment == "rangeindex" {
							if v, ok := fr.env[phi]; ok {
								bind[n] = v
							}
						}
					}
				}
				continue
			}
		}
		// phi at the header
		found := false
		for _, ins := range header.Instrs {
			phi, ok := ins.(*ssa.Phi)
			if !ok {
				break
			}
			if phi.Comment == n {
				if v, ok := fr.env[phi]; ok {
					bind[n] = v
					found = true
				}
				break
			}
		}
		if found {
			continue
		}
		// address-taken / captured local: Alloc with that comment
		for _, b := range fr.fn.Blocks {
			for _, ins := range b.Instrs {
				if a, ok := ins.(*ssa.Alloc); ok && a.Comment == n {
					if v, ok := fr.env[a]; ok {
						bind[n] = m.Load(st, v.(*Ptr))
						found = true
					}
				}
			}
		}
		if found {
			continue
		}
		// a loop-invariant local defined before the loop: find a value named by DebugRef-less heuristics:
		// any instruction dominating the header whose source position defines the identifier.
		if v, ok := m.findNamedValue(fr, at, n); ok {
			bind[n] = v
			continue
		}
	}
}

// findNamedValue finds the current SSA value of a local variable that is not loop-carried,
// using the DebugRef instructions go/ssa emits in GlobalDebug mode (each names the value a
// source variable holds at that point). The latest one dominating the header wins.
func (m *Machine) findNamedValue(fr *Frame, header *ssa.BasicBlock, name string) (Value, bool) {
	var best ssa.Value
	for _, b := range fr.fn.Blocks {
		if b != header && !b.Dominates(header) {
			continue
		}
		for _, ins := range b.Instrs {
			d, ok := ins.(*ssa.DebugRef)
			if !ok || d.IsAddr {
				continue
			}
			obj := d.Object()
			if obj == nil || obj.Name() != name {
				continue
			}
			if _, ok := obj.(*types.Var); !ok {
				continue
			}
			if _, ok := fr.env[d.X]; ok {
				best = d.X
			} else if _, isConst := d.X.(*ssa.Const); isConst {
				best = d.X
			}
		}
	}
	if best != nil {
		if c, ok := best.(*ssa.Const); ok {
			return m.constValue(nil, c), true
		}
		return fr.env[best], true
	}
	return nil, false
}

// enterLoopHeader implements loop cutting. It returns false if the path ends here.
func (m *Machine) enterLoopHeader(st *State, fr *Frame, from, header *ssa.BasicBlock, ord int, li *loopInfo) bool {
	isBack := li.body[header][from] && header.Dominates(from)
	spec := m.loopSpec(fr.fn, ord)
	if st.pure {
		// ghost code: bounded unrolling without obligations
		fr.loopHit[header.Index]++
		if fr.loopHit[header.Index] > 64 {
			st.dead = true
			return false
		}
		return true
	}
	if m.refute {
		// bounded refutation mode (only used to find concrete inputs for replay; never counted as proof)
		if !isBack {
			fr.loopHit[header.Index] = 0
		}
		fr.loopHit[header.Index]++
		if fr.loopHit[header.Index] > 12 {
			st.dead = true
			return false
		}
		return true
	}
	if spec == nil || (spec.Unroll == 0 && len(spec.Invariants) == 0 && len(spec.Iters) == 0 && len(spec.Exits) == 0) {
		if m.P.Contracts.Funcs[relName(fr.fn)] != nil {
			m.problem("loop %d of %s has neither invariant nor unroll bound", ord, relName(fr.fn))
			st.dead = true
			return false
		}
		// a helper without a contract that is being inlined (typically one that a refactoring has just
		// extracted): unroll it up to a default bound. Exceeding the bound decides nothing (the check
		// reports UNDECIDED for it), it is never a violation.
		const defaultUnroll = 8
		if !isBack {
			fr.loopHit[header.Index] = 0
		}
		fr.loopHit[header.Index]++
		if fr.loopHit[header.Index] > defaultUnroll+1 {
			m.recordObl(st, fr, "unwinddefault", fmt.Sprintf("loop%d", ord), m.ctx.F, m.unwindTags(),
				fmt.Sprintf("loop %d of the uncontracted helper %s runs at most %d iterations (default unrolling; undecided if not)", ord, relName(fr.fn), defaultUnroll), false)
			st.dead = true
			return false
		}
		return true
	}
	if spec.Unroll > 0 {
		if !isBack {
			fr.loopHit[header.Index] = 0
		}
		fr.loopHit[header.Index]++
		if fr.loopHit[header.Index] > spec.Unroll+1 {
			// paths beyond the bound are cut for every property's proof: the assertion belongs to all of them
			m.oblige(st, fr, "unwind", fmt.Sprintf("loop%d", ord), m.ctx.F, m.unwindTags(), fmt.Sprintf("loop %d needs at most %d iterations (unwinding assertion)", ord, spec.Unroll))
			st.dead = true
			return false
		}
		return true
	}
	// invariant-based cut
	tags := spec.Tags
	evalInv := func(kind string) {
		m.enterBlock(st, fr, from, header) // bind phis to incoming values
		if ri := m.rangeIndexInv(st, fr, header); ri != nil {
			m.oblige(st, fr, kind, fmt.Sprintf("loop%d.rangeindex", ord), ri, m.safeTagsFor(fr.fn), "range loop index stays within -1 <= i < len (automatic)")
		}
		bind := m.currentBindings(st, fr)
		if cut := fr.cuts[header.Index]; cut != nil {
			for k, v := range cut.lets {
				bind[k] = v
			}
		}
		for i, inv := range spec.Invariants {
			m.localBindings(st, fr, header, paramNames(inv), bind)
			v, ok := m.evalClause(st, inv, bind)
			if !ok {
				continue
			}
			t := inv.Tags
			if len(t) == 0 {
				t = tags
			}
			if len(t) == 0 {
				t = m.safeTagsFor(fr.fn)
			}
			// an invariant carries every postcondition proved after the loop: it belongs to every property the function has clauses for
			t = unionTags(t, m.allTags())
			label := inv.Label
			if label == "" {
				label = fmt.Sprint(i)
			}
			m.oblige(st, fr, kind, fmt.Sprintf("loop%d.%s", ord, label), v.(*Term), t, inv.Raw+"  ["+inv.Line+"]")
		}
	}
	if isBack {
		if cut := fr.cuts[header.Index]; cut != nil && len(spec.Iters) > 0 {
			bind := m.currentBindings(st, fr)
			for k, v := range cut.lets {
				bind[k] = v
			}
			savedBase := st.evBase
			st.evBase = cut.evBase
			m.iterCut = cut
			defer func() { m.iterCut = nil }()
			// X_next: the value the loop-carried variable X takes for the next iteration
			for _, ins := range header.Instrs {
				phi, ok := ins.(*ssa.Phi)
				if !ok {
					break
				}
				for ei, pb := range header.Preds {
					if pb == from && phi.Comment != "" {
						func() {
							defer func() { recover() }()
							bind[phi.Comment+"_next"] = m.val(st, fr, phi.Edges[ei])
						}()
					}
				}
			}
			for _, l := range spec.EndLets {
				m.localBindingsAt(st, fr, from, header, paramNames(l), bind)
				if v, ok := m.evalClause(st, l, bind); ok {
					bind[l.Name] = v
				}
			}
			for i, it := range spec.Iters {
				if m.onlyProp != "" {
					tg := it.Tags
					if len(tg) == 0 {
						tg = m.safeTagsFor(fr.fn)
					}
					if !hasTag(tg, m.onlyProp) {
						continue
					}
				}
				m.localBindingsAt(st, fr, from, header, paramNames(it), bind)
				v, ok := m.evalClause(st, it, bind)
				if !ok {
					continue
				}
				t := it.Tags
				if len(t) == 0 {
					t = m.safeTagsFor(fr.fn)
				}
				label := it.Label
				if label == "" {
					label = fmt.Sprint(i)
				}
				m.noteAntecedent(st, it, fmt.Sprintf("cover.iter.loop%d.%s", ord, label), bind)
				m.recordOrOblige(st, fr, "iter", fmt.Sprintf("loop%d.%s", ord, label), v.(*Term), t, it.Raw+"  ["+it.Line+"]")
			}
			st.evBase = savedBase
		}
		if cut := fr.cuts[header.Index]; cut != nil && cut.locks != nil && !st.pure {
			// lock balance per iteration: the next iteration starts with the same mutexes held
			var diff []string
			for k, v := range st.locks {
				if v != cut.locks[k] && (v > 0 || cut.locks[k] > 0) {
					diff = append(diff, k)
				}
			}
			for k, v := range cut.locks {
				if v > 0 && st.locks[k] != v {
					found := false
					for _, d := range diff {
						if d == k {
							found = true
						}
					}
					if !found {
						diff = append(diff, k)
					}
				}
			}
			sort.Strings(diff)
			okk := len(diff) == 0
			m.recordObl(st, fr, "guard", fmt.Sprintf("lockbalance.loop%d", ord), m.ctx.Bool(okk), append([]string{"C10", "C11"}, m.safeTagsFor(fr.fn)...),
				fmt.Sprintf("a loop iteration ends with the mutexes it started with (differs for: %v)", diff), okk)
		}
		evalInv("inv.preserve")
		// check that the havoc set covered everything the body wrote
		cut := fr.cuts[header.Index]
		if cut != nil {
			m.checkHavocCovered(st, fr, header, ord, cut)
		}
		st.dead = true
		return false
	}
	// loop lets: snapshot values at loop entry (before the cut)
	cut := &loopCut{lets: map[string]Value{}}
	{
		m.enterBlock(st, fr, from, header)
		bind := m.currentBindings(st, fr)
		for _, l := range spec.Lets {
			m.localBindings(st, fr, header, paramNames(l), bind)
			v, ok := m.evalClause(st, l, bind)
			if ok {
				cut.lets[l.Name] = v
				bind[l.Name] = v
			}
		}
	}
	fr.cuts[header.Index] = cut
	evalInv("inv.establish")
	// havoc loop-carried variables and the memory the body may write
	for _, ins := range header.Instrs {
		phi, ok := ins.(*ssa.Phi)
		if !ok {
			break
		}
		nv := m.ts.FreshValue("lv."+phi.Comment, phi.Type())
		m.assumeWellFormed(st, phi.Type(), nv)
		fr.env[phi] = nv
	}
	key := m.loopKey(fr.fn, ord)
	names := m.loopHavoc[key]
	var sorted []string
	for n := range names {
		if !strings.Contains(n, "@") {
			sorted = append(sorted, n)
		}
	}
	sort.Strings(sorted)
	for _, n := range sorted {
		// local objects keep their content unless listed as modified ("name@refid")
		m.havocLoopName(st, n, names)
	}
	m.timePasses(st)
	cut.heapAt = cloneHeap(st.heap)
	cut.freshAt = len(st.fresh)
	cut.nfreshAt = m.ctx.nfresh
	cut.locks = map[string]int{}
	for k, v := range st.locks {
		cut.locks[k] = v
	}
	cut.evBase = len(st.events)
	fr.cuts[header.Index] = cut
	// assume the invariants
	fr.prev = from
	fr.block = header
	n := 0
	for _, ins := range header.Instrs {
		if _, ok := ins.(*ssa.Phi); !ok {
			break
		}
		n++
	}
	fr.ip = n
	bind := m.currentBindings(st, fr)
	for k, v := range cut.lets {
		bind[k] = v
	}
	if ri := m.rangeIndexInv(st, fr, header); ri != nil {
		st.assume(ri)
	}
	if len(spec.IterLets) > 0 {
		nl := map[string]Value{}
		for k, v := range cut.lets {
			nl[k] = v
		}
		for _, l := range spec.IterLets {
			m.localBindings(st, fr, header, paramNames(l), bind)
			v, ok := m.evalClause(st, l, bind)
			if ok {
				nl[l.Name] = v
				bind[l.Name] = v
			}
		}
		cut.lets = nl
	}
	for _, inv := range spec.Invariants {
		m.localBindings(st, fr, header, paramNames(inv), bind)
		v, ok := m.evalClause(st, inv, bind)
		if ok {
			st.assume(v.(*Term))
		}
	}
	m.trace(st, fmt.Sprintf("loop%d:cut", ord))
	return false // block already entered
}

func paramNames(c *Clause) []string {
	var out []string
	for _, p := range c.Params {
		out = append(out, p.Name)
	}
	return out
}

func (m *Machine) safeTagsFor(fn *ssa.Function) []string {
	if fc := m.P.Contracts.Funcs[relName(fn)]; fc != nil {
		if len(fc.SafeTags) > 0 {
			return fc.SafeTags
		}
		return fc.Props
	}
	return m.safeTags()
}

// havocLoopName havocs memory `name` at a loop cut. Entries of non-escaped local objects are
// preserved unless the previous run saw the body modify them.
func (m *Machine) havocLoopName(st *State, name string, mods map[string]bool) {
	old, ok := st.heap[name]
	if !ok {
		return
	}
	nw := m.ctx.Fresh("Hl."+name, old.sort)
	esc := map[int]bool{}
	for _, f := range st.fresh {
		if f.escaped {
			esc[f.ref.id] = true
		}
	}
	m.baseInfo[nw.id] = &baseArrInfo{nfresh: m.ctx.nfresh, escaped: esc}
	res := nw
	for _, f := range st.fresh {
		if f.escaped || !strings.HasPrefix(name, f.mem+".") {
			continue
		}
		if mods[fmt.Sprintf("%s@%s", name, f.site)] {
			continue
		}
		res = m.ctx.Store(res, f.ref, m.ctx.Select(old, f.ref))
	}
	st.heap[name] = res
}

// checkHavocCovered compares the heap at the back edge with the heap right after the cut.
func (m *Machine) checkHavocCovered(st *State, fr *Frame, header *ssa.BasicBlock, ord int, cut *loopCut) {
	key := m.loopKey(fr.fn, ord)
	set := m.loopHavoc[key]
	if set == nil {
		set = map[string]bool{}
		m.loopHavoc[key] = set
	}
	for name, now := range st.heap {
		at, ok := cut.heapAt[name]
		if ok && at == now {
			continue
		}
		// which objects were written? walk the store chain down to `at`
		t := now
		wholesale := false
		var localsWritten []*freshObj
		for t != at {
			if t.op != "store" {
				wholesale = true
				break
			}
			idx := t.args[1]
			fo := (*freshObj)(nil)
			for _, f := range st.fresh[:min(cut.freshAt, len(st.fresh))] {
				// an object that was still private at the cut but is written in the body (possibly after
				// escaping into a callee there) must not keep its pre-loop content across the cut
				if f.ref == idx {
					fo = f
				}
			}
			if fo != nil {
				localsWritten = append(localsWritten, fo)
			} else if m.isFreshAfter(st, idx, cut.freshAt) {
				// object allocated inside the body: invisible to the next iteration
			} else {
				wholesale = true
			}
			t = t.args[0]
		}
		if !ok {
			wholesale = true
		}
		if wholesale && !set[name] {
			set[name] = true
			m.restart = true
		}
		for _, f := range localsWritten {
			k := fmt.Sprintf("%s@%s", name, f.site)
			if !set[k] {
				set[k] = true
				set[name] = set[name] || false
				if !set[name] {
					// the name itself must be in the havoc list so that the local entry is re-created
					set[name] = true
				}
				m.restart = true
			}
		}
	}
}

func (m *Machine) isFreshAfter(st *State, idx *Term, n int) bool {
	for i, f := range st.fresh {
		if f.ref == idx {
			return i >= n
		}
	}
	return false
}

func min(a, b int) int {
	if a < b {
		return a
	}
	return b
}

var _ = big.NewInt

// learnDistinct records reference disequalities that hold on every path of the function
// (conjuncts of its requires clauses), so that the simplifier can use them.
func (m *Machine) learnDistinct(t *Term) {
	switch t.op {
	case "and":
		for _, a := range t.args {
			m.learnDistinct(a)
		}
	case "=":
		// closureIs(f, name) in a requires clause: select(clo.fn, f) == code
		for k := 0; k < 2; k++ {
			sel, code := t.args[k], t.args[1-k]
			if sel.op == "select" && sel.args[0].op == "var" && strings.HasSuffix(sel.args[0].name, "clo.fn") && code.IsNum() {
				if fn, ok := m.fnOf[code.num.Int64()]; ok {
					m.knownCode[sel.args[1].id] = fn
				}
			}
		}
	case "not":
		e := t.args[0]
		if e.op == "=" && e.args[0].sort == IntSort {
			if m.ctx.knownDistinct == nil {
				m.ctx.knownDistinct = map[[2]int]bool{}
			}
			m.ctx.knownDistinct[[2]int{e.args[0].id, e.args[1].id}] = true
		}
	}
}

// rangeIndexInv: for a `for i := range s` loop (go/ssa: phi #rangeindex, t = phi+1, t < len)
// the invariant -1 <= phi < max(len,0)... precisely: -1 <= phi && phi < len || (phi == -1).
func (m *Machine) rangeIndexInv(st *State, fr *Frame, header *ssa.BasicBlock) *Term {
	var phi *ssa.Phi
	for _, ins := range header.Instrs {
		p, ok := ins.(*ssa.Phi)
		if !ok {
			break
		}
		if p.Comment == "rangeindex" {
			phi = p
		}
	}
	if phi == nil {
		return nil
	}
	var bound ssa.Value
	for _, ins := range header.Instrs {
		if b, ok := ins.(*ssa.BinOp); ok && b.Op == token.LSS {
			if add, ok := b.X.(*ssa.BinOp); ok && add.Op == token.ADD && add.X == phi {
				bound = b.Y
			}
		}
	}
	if bound == nil {
		return nil
	}
	pv, ok1 := fr.env[phi].(*Term)
	bvv, ok2 := fr.env[bound]
	if !ok1 || !ok2 {
		return nil
	}
	bv := bvv.(*Term)
	minus1 := m.ts.IdxConst(-1)
	return m.ctx.And(m.idxLe(minus1, pv), m.ctx.Or(m.idxLt(pv, bv), m.ctx.Eq(pv, minus1)))
}

// noteAntecedent records (path condition and antecedent) for the vacuity check of clause c.
func (m *Machine) noteAntecedent(st *State, c *Clause, name string, bind map[string]Value) {
	if c.AnteFn == "" || st.pure {
		return
	}
	gf := m.P.Funcs[c.AnteFn]
	if gf == nil {
		return
	}
	var args []Value
	for _, p := range gf.Params {
		v, ok := bind[p.Name()]
		if !ok {
			return
		}
		args = append(args, v)
	}
	a := m.pureCall(st, gf, args, nil)[0].(*Term)
	if a.IsFalse() {
		if _, ok := m.anteCover[name]; !ok {
			m.anteCover[name] = nil
			m.anteOrder = append(m.anteOrder, name)
		}
		return
	}
	if _, ok := m.anteCover[name]; !ok {
		m.anteOrder = append(m.anteOrder, name)
		m.anteCover[name] = nil
	}
	if m.obviouslyContradicts(st.pc, a) {
		return
	}
	if len(m.anteCover[name]) < 200 {
		m.anteCover[name] = append(m.anteCover[name], append(append([]*Term{}, st.pc...), a))
	}
	m.anteTags[name] = c.Tags
}

// markAliasOK marks fresh object r (and what it references) as possibly aliased by callee results.
func (m *Machine) markAliasOK(st *State, r *Term, depth int) {
	if r.op == "ite" {
		m.markAliasOK(st, r.args[1], depth)
		m.markAliasOK(st, r.args[2], depth)
		return
	}
	f := m.freshObjOf(st, r)
	if f == nil || st.aliasOK[r.id] || depth > 4 {
		return
	}
	st.aliasOK[r.id] = true
	if f.typ == nil || f.isArr {
		return
	}
	defer func() { recover() }()
	for _, l := range m.ts.Leaves(f.typ) {
		if l.kind != 'r' {
			continue
		}
		name := leafName(f.mem, l.path)
		if arr, ok := st.heap[name]; ok {
			v := m.ctx.Select(arr, f.ref)
			if v.IsNum() {
				m.markAliasOK(st, v, depth+1)
			}
		}
	}
}

// obviouslyContradicts: some conjunct x == c of a clashes with a fact x == c' (c != c') of pc.
func (m *Machine) obviouslyContradicts(pc []*Term, a *Term) bool {
	known := map[int]*Term{}
	var scan func(t *Term)
	scan = func(t *Term) {
		switch t.op {
		case "and":
			for _, x := range t.args {
				scan(x)
			}
		case "=":
			if t.args[0].IsNum() && !t.args[1].IsNum() {
				known[t.args[1].id] = t.args[0]
			} else if t.args[1].IsNum() && !t.args[0].IsNum() {
				known[t.args[0].id] = t.args[1]
			}
		}
	}
	for _, p := range pc {
		scan(p)
	}
	bad := false
	var chk func(t *Term)
	chk = func(t *Term) {
		switch t.op {
		case "and":
			for _, x := range t.args {
				chk(x)
			}
		case "=":
			var v, c *Term
			if t.args[0].IsNum() {
				c, v = t.args[0], t.args[1]
			} else if t.args[1].IsNum() {
				c, v = t.args[1], t.args[0]
			}
			if v != nil {
				if k, ok := known[v.id]; ok && k != c {
					bad = true
				}
			}
		}
	}
	chk(a)
	return bad
}

// typeHasRefs: values of type t can hold references to objects (other than byte/number arrays).
func (m *Machine) typeHasRefs(t types.Type, depth int) bool {
	if depth > 4 {
		return true
	}
	switch u := t.Underlying().(type) {
	case *types.Pointer, *types.Interface, *types.Signature, *types.Map, *types.Chan:
		return true
	case *types.Slice:
		return m.typeHasRefs(u.Elem(), depth+1)
	case *types.Struct:
		for i := 0; i < u.NumFields(); i++ {
			if m.typeHasRefs(u.Field(i).Type(), depth+1) {
				return true
			}
		}
	}
	return false
}

// frameCheck: a write by the function under verification (or by a callee, per its assigns clause)
// must hit a location allocated during the call, a lock-guarded field, or a location listed in
// the function's own assigns clause. Callers rely on exactly this frame.
func (m *Machine) frameCheck(st *State, fr *Frame, ins ssa.Instruction, p *Ptr, what string) {
	if st.pure || m.fc == nil || !m.fc.HasAssigns || m.refute {
		return
	}
	if p.Ref != nil && m.isFreshRef(st, p.Ref) {
		return
	}
	if p.Ref != nil && p.Ref.op == "ite" {
		// e.g. append target: in place or fresh
		allFresh := true
		var walk func(t *Term)
		walk = func(t *Term) {
			if t.op == "ite" {
				walk(t.args[1])
				walk(t.args[2])
			} else if !m.isFreshRef(st, t) {
				allFresh = false
			}
		}
		walk(p.Ref)
		if allFresh {
			return
		}
	}
	first := p.Path
	if i := strings.Index(first, "."); i >= 0 {
		first = first[:i]
	}
	if os.Getenv("GOVC_GUARDFRAME") == "" {
	for _, g := range m.P.Contracts.Guards {
		if g.Kind == "by" && g.Field == p.Mem+"."+first {
			return // guarded (or role-confined) field: discipline is checked by guard.* obligations; callers treat it as volatile
		}
	}
	}
	if strings.HasPrefix(p.Mem, "global<") {
		return
	}
	var alts []*Term
	for _, a := range m.assignLocs {
		if a.Mem != p.Mem {
			continue
		}
		if a.Path == "*" || a.Path == "" || a.Path == p.Path || strings.HasPrefix(p.Path, a.Path+".") {
			if a.Ref == nil {
				return // "any T.f"
			}
			if p.Ref == nil {
				continue
			}
			alts = append(alts, m.ctx.Eq(a.Ref, p.Ref))
		}
	}
	if p.Ref != nil && p.Path == "*" {
		alts = append(alts, m.ctx.Eq(p.Ref, m.ctx.Int(0))) // elements of a nil slice: none
	}
	if p.Ref != nil {
		// objects allocated after the function was entered (by it or by its callees) are not part of the caller's frame
		alts = append(alts, m.ctx.ILt(m.ctx.IntBig(new(big.Int).Add(freshBase, big.NewInt(int64(m.entryFresh(st))))), p.Ref))
	}
	ord := "callee"
	if ins != nil {
		ord = fmt.Sprint(m.ordinal(fr.fn, ins, ""))
	}
	loc := p.Mem
	if p.Path != "" {
		loc += "." + p.Path
	}
	m.oblige(st, fr, "frame", fmt.Sprintf("%s.%s", mangle(loc), ord), m.ctx.Or(alts...), m.allTags(), "write to "+loc+" ("+what+") is covered by the assigns clause")
}

// loopExits: control leaves loop(s) on the edge from -> target; evaluate their exit clauses.
func (m *Machine) loopExits(st *State, fr *Frame, from, target *ssa.BasicBlock) {
	if st.pure || m.refute {
		return
	}
	li := m.loopInfoOf(fr.fn)
	for _, h := range li.headers {
		// the loop is left when control reaches the block that follows it (the header's successor
		// outside the body, which is also where break statements jump to)
		isDone := false
		hasDoneSucc := false
		for _, sblk := range h.Succs {
			if !li.body[h][sblk] {
				hasDoneSucc = true
				if sblk == target {
					isDone = true
				}
			}
		}
		if !hasDoneSucc && li.body[h][from] && !li.body[h][target] {
			isDone = true // loops left only from inside (for { ... }): any edge out of the body
		}
		if !isDone || from == target {
			continue
		}
		cut := fr.cuts[h.Index]
		ord := li.ord[h]
		spec := m.loopSpec(fr.fn, ord)
		if cut == nil || spec == nil || len(spec.Exits) == 0 {
			continue
		}
		bind := m.currentBindings(st, fr)
		for k, v := range cut.lets {
			bind[k] = v
		}
		savedBase := st.evBase
		st.evBase = cut.evBase
		for _, l := range spec.EndLets {
			m.localBindingsAt(st, fr, from, h, paramNames(l), bind)
			if v, ok := m.evalClause(st, l, bind); ok {
				bind[l.Name] = v
			}
		}
		for i, it := range spec.Exits {
			if m.onlyProp != "" {
				tg := it.Tags
				if len(tg) == 0 {
					tg = m.safeTagsFor(fr.fn)
				}
				if !hasTag(tg, m.onlyProp) {
					continue
				}
			}
			m.localBindingsAt(st, fr, from, h, paramNames(it), bind)
			v, ok := m.evalClause(st, it, bind)
			if !ok {
				continue
			}
			t := it.Tags
			if len(t) == 0 {
				t = m.safeTagsFor(fr.fn)
			}
			label := it.Label
			if label == "" {
				label = fmt.Sprint(i)
			}
			m.noteAntecedent(st, it, fmt.Sprintf("cover.exit.loop%d.%s", ord, label), bind)
			m.recordOrOblige(st, fr, "exit", fmt.Sprintf("loop%d.%s", ord, label), v.(*Term), t, it.Raw+"  ["+it.Line+"]")
		}
		st.evBase = savedBase
	}
}

// paramCell: the heap cell a parameter was moved to (go/ssa does this for parameters captured by closures).
func (m *Machine) paramCell(fr *Frame, name string) *Ptr {
	isParam := false
	for i, p := range fr.fn.Params {
		if paramNameOf(fr.fn, i) == name {
			isParam = true
			name = p.Name() // the cell is named after the parameter as spelled in the code
		}
	}
	if !isParam || len(fr.fn.Blocks) == 0 {
		return nil
	}
	for _, ins := range fr.fn.Blocks[0].Instrs {
		if a, ok := ins.(*ssa.Alloc); ok && a.Comment == name {
			if v, ok := fr.env[a]; ok {
				return v.(*Ptr)
			}
		}
	}
	return nil
}

// curBlock: the basic block the frame is executing.
func (m *Machine) curBlock(fr *Frame) *ssa.BasicBlock {
	return fr.block
}
