package main

import (
	"crypto/sha1"
	"encoding/json"
	"fmt"
	"go/types"
	"os"
	"path/filepath"
	"runtime/debug"
	"sort"
	"strings"
	"sync"
	"time"

	"golang.org/x/tools/go/ssa"
)

type FuncReport struct {
	Name      string
	Mode      string
	Obls      []*Obligation
	Problems  []string
	Trusted   []string
	Contracts []string
	Paths     int
	Loops     map[string]string
	GenMS     int64
}

func newMachine(P *Program, fn *ssa.Function, fc *FuncContract) *Machine {
	mode := ModeBV
	if fc != nil && fc.Mode == "int" {
		mode = ModeInt
	}
	ctx := NewCtx()
	m := &Machine{P: P, ctx: ctx, mode: mode, fn: fn, fc: fc,
		ts:        &TypeSys{mode: mode, ctx: ctx, pkg: P.Pkg.Types, cache: map[types.Type][]leaf{}},
		oblSeen:   map[string]bool{},
		typeCodes: map[string]int64{}, typeOf: map[int64]types.Type{},
		fnCodes: map[*ssa.Function]int64{}, fnOf: map[int64]*ssa.Function{},
		implUsed: map[string]*types.Interface{}, globals: map[*ssa.Global]int64{},
		trusted: map[string]bool{}, usedContracts: map[string]bool{},
		loops: map[*ssa.Function]*loopInfo{}, loopHavoc: map[string]map[string]bool{},
		baseInfo: map[int]*baseArrInfo{}, maxPaths: 5000, ctxParent: map[int]*Iface{}, runeSrc: map[int]*runeInfo{}, ownedChans: map[int]bool{}, transferred: map[int]bool{}, knownCode: map[int]*ssa.Function{}, guardedMaps: map[int]bool{}, recCache: map[*ssa.Function]bool{}, recReads: map[*ssa.Function][]string{}, recDepth: map[*ssa.Function]int{}, memSortOf: map[string]*Sort{},
	}
	if fc != nil && fc.MaxPaths > 0 {
		m.maxPaths = fc.MaxPaths
	}
	ctx.distinctHook = m.distinctHook
	return m
}

func verifyFunc(P *Program, name string) (rep *FuncReport) {
	return verifyFuncMode(P, name, false)
}

var onlyProperty string

// trackOrigins: remember which callee clause each assumed fact came from (govc deps)
var trackOrigins bool

func verifyFuncMode(P *Program, name string, refute bool) (rep *FuncReport) {
	fc := P.Contracts.Funcs[name]
	fn := P.Funcs[name]
	rep = &FuncReport{Name: name, Loops: map[string]string{}}
	if fn == nil {
		rep.Problems = append(rep.Problems, "contract target not found: "+name)
		return
	}
	rep.Problems = append(rep.Problems, P.Contracts.Broken[name]...)
	m := newMachine(P, fn, fc)
	if trackOrigins {
		m.origins = map[int][]string{}
	}
	m.refute = refute
	m.onlyProp = onlyProperty
	rep.Mode = m.mode.String()
	start := time.Now()
	defer func() {
		if e := recover(); e != nil {
			if u, ok := e.(unsupportedErr); ok {
				where := ""
				if m.lastFn != nil && m.lastIns != nil {
					where = fmt.Sprintf(" (at %s: %s)", relName(m.lastFn), m.lastIns.String())
				}
				rep.Problems = append(rep.Problems, u.Error()+where)
				if os.Getenv("GOVC_DEBUG") != "" {
					fmt.Fprintf(os.Stderr, "%s\n%s\n", u.Error(), debug.Stack())
				}
			} else if u, ok := e.(error); ok && strings.HasPrefix(u.Error(), "unsupported:") {
				rep.Problems = append(rep.Problems, u.Error())
			} else {
				rep.Problems = append(rep.Problems, fmt.Sprintf("engine panic: %v\n%s", e, debug.Stack()))
			}
		}
		rep.Obls = m.obls
		rep.Problems = append(rep.Problems, m.problems...)
		for k := range m.trusted {
			rep.Trusted = append(rep.Trusted, k)
		}
		sort.Strings(rep.Trusted)
		for k := range m.usedContracts {
			rep.Contracts = append(rep.Contracts, k)
		}
		sort.Strings(rep.Contracts)
		rep.Paths = m.paths
		rep.GenMS = time.Since(start).Milliseconds()
		ax := m.globalAxioms()
		for _, o := range rep.Obls {
			if o.ctx != m.ctx {
				continue // from a reject pass: carries its own axioms
			}
			o.PC = append(o.PC, ax...)
		}
		if fc != nil {
			for ord, l := range fc.Loops {
				if l.Unroll > 0 {
					rep.Loops[fmt.Sprint(ord)] = fmt.Sprintf("unrolled %d with unwinding assertion", l.Unroll)
				} else {
					rep.Loops[fmt.Sprint(ord)] = fmt.Sprintf("%d invariant clause(s)", len(l.Invariants))
				}
			}
		}
	}()
	m.Verify()
	if fc != nil && !refute {
		// reject passes: one per clause, the clause replaces the preconditions
		for _, rc := range fc.Rejects {
			if onlyProperty != "" && !hasTag(rc.Tags, onlyProperty) && !hasTag(fc.Props, onlyProperty) {
				continue
			}
			m2 := newMachine(P, fn, fc)
			m2.onlyProp = onlyProperty
			m2.reject = rc
			m2.Verify()
			tags := rc.Tags
			if len(tags) == 0 {
				tags = fc.Props
			}
			ax2 := m2.globalAxioms()
			for _, o := range m2.obls {
				o.PC = append(o.PC, ax2...)
				switch {
				case o.Kind == "reject":
					o.Tags = tags
					m.obls = append(m.obls, o)
				case strings.HasSuffix(o.Name, "#cover.requires"):
					o.Name = relName(fn) + "#cover.reject." + rc.Label
					o.Desc = "the rejected inputs exist (vacuity check)"
					o.Tags = tags
					m.obls = append(m.obls, o)
				}
			}
			m.problems = append(m.problems, m2.problems...)
			m.paths += m2.paths
		}
	}
	return
}

// globalAxioms: facts about type codes (which registered dynamic types implement which interface).
func (m *Machine) globalAxioms() []*Term {
	var out []*Term
	var names []string
	for n := range m.implUsed {
		names = append(names, n)
	}
	sort.Strings(names)
	for _, n := range names {
		it := m.implUsed[n]
		var codes []int64
		for c := range m.typeOf {
			codes = append(codes, c)
		}
		sort.Slice(codes, func(i, j int) bool { return codes[i] < codes[j] })
		for _, c := range codes {
			t := m.typeOf[c]
			if b, ok := t.(*types.Pointer); ok {
				if _, isB := b.Elem().(*types.Basic); isB {
					continue // synthetic codes for opaque external types
				}
			}
			out = append(out, m.ctx.Eq(m.ctx.App("impl<"+n+">", BoolSort, m.ctx.Int(c)), m.ctx.Bool(types.Implements(t, it))))
		}
	}
	return out
}

// ---------- solving ----------

// dropForalls removes top-level universally quantified conjuncts (sound: weakens hypotheses).
func (c *Ctx) dropForalls(t *Term) *Term {
	switch t.op {
	case "and":
		var parts []*Term
		for _, a := range t.args {
			parts = append(parts, c.dropForalls(a))
		}
		return c.And(parts...)
	case "forall":
		return c.T
	}
	return t
}

func (o *Obligation) script() string { return o.scriptMode(false) }

// scriptMode(qf=true): quantified hypotheses are replaced by their engine-side ground instances.
func (o *Obligation) scriptMode(qf bool) string {
	p := o.ctx.NewPrinter()
	var asserts []*Term
	for _, p := range o.PC {
		asserts = append(asserts, o.ctx.PosSkolem(p))
	}
	var goalT *Term
	if o.Cover {
		goalT = o.ctx.PosSkolem(o.Goal)
	} else {
		goalT = o.ctx.NegSkolem(o.Goal)
	}
	insts := o.ctx.instantiate(append(append([]*Term{}, asserts...), goalT))
	if qf {
		for i, a := range asserts {
			asserts[i] = o.ctx.dropForalls(a)
		}
	}
	asserts = append(asserts, insts...)
	asserts = append(asserts, goalT)
	var gv []*Term
	for _, in := range o.Inputs {
		if in.T.sort.K != SArr {
			gv = append(gv, in.T)
		}
	}
	return p.Script(asserts, gv)
}

// coreScript: like scriptMode(true), but facts assumed from callee clauses are named so that an unsat core
// tells which callee clauses the proof of this obligation used. Ground instances of quantified facts are
// named inst_k (their source cannot be told apart).
func (o *Obligation) coreScript() (string, map[string][]string, []string) {
	p := o.ctx.NewPrinter()
	var asserts []*Term
	names := []string{}
	byName := map[string][]string{}
	var quantOrigins []string
	for i, pc := range o.PC {
		a := o.ctx.PosSkolem(pc)
		nm := ""
		if og := o.origins[pc.id]; len(og) > 0 {
			nm = fmt.Sprintf("og_%d", i)
			byName[nm] = og
			if o.ctx.dropForalls(a) != a {
				quantOrigins = append(quantOrigins, og...)
			}
		}
		asserts = append(asserts, a)
		names = append(names, nm)
	}
	goalT := o.ctx.NegSkolem(o.Goal)
	insts := o.ctx.instantiate(append(append([]*Term{}, asserts...), goalT))
	for i, a := range asserts {
		asserts[i] = o.ctx.dropForalls(a)
	}
	for k, in := range insts {
		asserts = append(asserts, in)
		names = append(names, fmt.Sprintf("inst_%d", k))
	}
	asserts = append(asserts, goalT)
	names = append(names, "")
	return p.ScriptNamed(asserts, names), byName, quantOrigins
}

func solveAll(obls []*Obligation, dir string, timeoutS int, agree bool, seed int, workers int) {
	var wg sync.WaitGroup
	ch := make(chan *Obligation)
	for w := 0; w < workers; w++ {
		wg.Add(1)
		go func() {
			defer wg.Done()
			for o := range ch {
				solveOne(o, dir, timeoutS, agree, seed)
			}
		}()
	}
	for _, o := range obls {
		if o.Status != "" {
			continue
		}
		ch <- o
	}
	close(ch)
	wg.Wait()
}

var scriptMu sync.Mutex

func solveOne(o *Obligation, dir string, timeoutS int, agree bool, seed int) {
	defer func() {
		if e := recover(); e != nil {
			o.Status = "unknown"
			o.Output = fmt.Sprintf("engine panic while printing: %v\n%s", e, debug.Stack())
		}
	}()
	if o.Alts != nil {
		// cover.any: unsat only if every alternative is unsat
		total := int64(0)
		for i, pc := range o.Alts {
			if i >= 200 {
				o.Status = "unknown"
				break
			}
			sub := &Obligation{Func: o.Func, Name: o.Name, Kind: "cover", Cover: true, PC: pc, Goal: o.Goal, ctx: o.ctx, Hash: fmt.Sprintf("%s/alt%d", o.Hash, i)}
			solveOne(sub, dir, timeoutS, false, seed)
			total += sub.TimeMS
			o.Status, o.Solver, o.Output = sub.Status, sub.Solver, sub.Output
			if sub.Status != "unsat" {
				break
			}
		}
		o.TimeMS = total
		return
	}
	// printing touches the (non thread-safe) term context of the function
	mu := ctxLock(o.ctx)
	mu.Lock()
	t0 := time.Now()
	script := o.script()
	qfScript := ""
	if !o.Cover && strings.Contains(script, "(forall ") {
		qfScript = o.scriptMode(true)
	}
	if os.Getenv("GOVC_TIMING") != "" {
		fmt.Fprintf(os.Stderr, "print %s %dms %dKB\n", o.Name, time.Since(t0).Milliseconds(), len(script)/1024)
	}
	mu.Unlock()
	h := sha1.Sum([]byte(o.Hash))
	base := fmt.Sprintf("%s_%x", mangle(o.Name), h[:6])
	if len(base) > 120 {
		base = base[len(base)-120:]
	}
	if o.Cover && timeoutS > 2 {
		timeoutS = 2
	}
	if o.ShortTimeout && timeoutS > 4 {
		timeoutS = 4
	}
	if qfScript != "" && qfScript != script {
		// first attempt: hypotheses instantiated by the engine, no quantifier left for the solver
		qt := timeoutS / 2
		if qt < 6 {
			qt = 6
		}
		if qt > timeoutS {
			qt = timeoutS
		}
		rq := runSolvers(dir, base+"_qf", qfScript, qt, false, seed)
		if rq.status == "unsat" {
			o.Status, o.Solver, o.TimeMS, o.Output = "unsat", rq.solver+"(ground-instantiated)", rq.ms, rq.output
			return
		}
		if rq.ms >= int64(qt)*900 {
			o.QFTimedOut = true // the instantiated attempt ran out of time: a loaded machine, not a verdict
		}
	}
	r := runSolvers(dir, base, script, timeoutS, agree && !o.Cover, seed)
	o.Status = r.status
	o.Solver = r.solver
	o.TimeMS = r.ms
	o.Output = r.output
	if agree && !o.Cover {
		for s, st := range r.all {
			if st != "unknown" && st != r.status {
				o.Status = "unknown"
				o.Output = fmt.Sprintf("solvers disagree: %v\n%s", r.all, r.output)
				_ = s
			}
		}
	}
	if r.status == "sat" && !o.Cover {
		vals := parseValues(strings.SplitN(r.output, "\n", 2)[1])
		o.Model = map[string]string{}
		k := 0
		for _, in := range o.Inputs {
			if in.T.sort.K == SArr {
				continue
			}
			if k < len(vals) {
				o.Model[in.Name] = vals[k]
			}
			k++
		}
	}
}

var ctxLocks sync.Map

func ctxLock(c *Ctx) *sync.Mutex {
	v, _ := ctxLocks.LoadOrStore(c, &sync.Mutex{})
	return v.(*sync.Mutex)
}

// ---------- selection of work for a property ----------

func hasTag(tags []string, p string) bool {
	for _, t := range tags {
		if t == p {
			return true
		}
	}
	return false
}

func funcsForProperty(cs *Contracts, prop string) []string {
	var out []string
	for _, n := range cs.Order {
		fc := cs.Funcs[n]
		if fc.Trusted {
			continue
		}
		use := hasTag(fc.Props, prop) || hasTag(fc.SafeTags, prop)
		if (prop == "C10" || prop == "C11") && len(cs.Shared) > 0 && fc.Mode != "" && !fc.Pure {
			use = true // the access discipline (C10) and lock balance / callbacks-unlocked (C11) are checked in every function under contract
		}
		if prop == "C06" && fc.Mode != "" {
			use = true // absence of run-time panics (safe.* obligations) is checked in every function under contract
		}
		for _, e := range fc.Ensures {
			if hasTag(e.Tags, prop) {
				use = true
			}
		}
		for _, l := range fc.Loops {
			if hasTag(l.Tags, prop) {
				use = true
			}
			for _, e := range l.Invariants {
				if hasTag(e.Tags, prop) {
					use = true
				}
			}
			for _, e := range append(append([]*Clause{}, l.Iters...), l.Exits...) {
				if hasTag(e.Tags, prop) {
					use = true
				}
			}
		}
		if use {
			out = append(out, n)
		}
	}
	return out
}

// ---------- evidence ----------

type evidence struct {
	PropertyID  string                 `json:"property_id"`
	Tier        string                 `json:"tier"`
	Seed        int                    `json:"seed"`
	Level       string                 `json:"level"`
	Coverage    map[string]interface{} `json:"coverage"`
	Assumptions []string               `json:"assumptions"`
	WallS       float64                `json:"wall_s"`
	Violations  int                    `json:"violations"`
}

func writeJSON(path string, v interface{}) error {
	b, err := json.MarshalIndent(v, "", " ")
	if err != nil {
		return err
	}
	if err := os.MkdirAll(filepath.Dir(path), 0o755); err != nil {
		return err
	}
	return os.WriteFile(path, b, 0o644)
}
