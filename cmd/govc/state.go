package main

import (
	"os"
	"runtime/debug"
	"fmt"
	"go/types"
	"math/big"
	"sort"
	"strings"

	"golang.org/x/tools/go/ssa"
)

var freshBase = new(big.Int).Lsh(big.NewInt(1), 62)
var globalBase = new(big.Int).Lsh(big.NewInt(1), 60)
var fnBase = new(big.Int).Lsh(big.NewInt(1), 61)

type freshObj struct {
	ref     *Term
	typ     types.Type // object type (struct / cell type / array elem type)
	mem     string
	isArr   bool
	escaped bool
	site    string
}

type Event struct {
	Name string
	Args []Value
	Rets []Value
	Seqs map[int]*SeqV // snapshot of []byte arguments at event time
	Snaps map[int]*SliceSnap // snapshot of slice arguments (any element type) at event time
	Heap map[string]*Term
	Locks map[string]int // mutexes held when the event happened (lockKey -> 1 read, 2 write)
}

type deferred struct {
	call *ssa.CallCommon
	fn   Value
	args []Value
	pos  ssa.Instruction
}

type Frame struct {
	fn      *ssa.Function
	env     map[ssa.Value]Value
	block   *ssa.BasicBlock
	prev    *ssa.BasicBlock
	ip      int
	defers  []*deferred
	callVal ssa.Value // value in the parent frame receiving the result (nil: discard)
	kind    int       // 0 normal call, 1 deferred call (resume rundefers), 2 top
	loopHit map[int]int
	cuts    map[int]*loopCut // active loop cuts by header index
	fvals   []Value          // free variable bindings (pointers to cells)
	entry   map[string]Value
	lets    map[string]Value
	heap0   map[string]*Term
	depth   int
}

type loopCut struct {
	heapAt   map[string]*Term // heap right after the havoc
	freshAt  int              // number of fresh objects at the cut
	nfreshAt int              // value of the global allocation counter at the cut
	lets     map[string]Value
	evBase   int
	locks    map[string]int // mutexes held at the cut
}

type State struct {
	frames  []*Frame
	heap    map[string]*Term
	pc      []*Term
	branch  []*Term // branch conditions only (pure mode merging)
	events  []*Event
	locks   map[string]int
	fresh   []*freshObj
	pure    bool
	dead    bool
	rets    []Value // result of the bottom frame (pure mode)
	done    bool
	chanVer int
	chanQ   map[int][]chanQuery
	steps   int
	trail   []string
	defs    map[int]*seqDef // pending definitional seqEq markers
	definable map[int]bool
	reads   []streamRead
	ghostCells map[int]Value
	havocPending map[string]bool
	closerFresh map[int]bool // fresh channels stored (only) in a field with a closer declaration
	closerSpawned bool
	guardVals map[string]Value // value of guarded fields right after the last acquisition of their guard
	recDone map[string]bool
	guardSnaps map[int]*MapSnap // content of guarded maps right after the last lock acquisition
	aliasOK map[int]bool // fresh objects handed to the current callee: its results may alias them
	baseFrames int // pure evaluation: frames[:baseFrames] belong to the caller and are shared
	evBase  int // event builtins see st.events[evBase:]
	opaque  int // !=0: event builtins refer to the (invisible) trace of callee activation #opaque
	defDeps []string // callee clauses applied definitionally so far (immutable-append)
	opaqueNfresh int // allocation counter when that callee was called (fresh() in its clauses: allocated during the call)
}

type streamRead struct {
	k, off, n *Term
}

type chanQuery struct {
	ver  int
	term *Term
}

type seqDef struct {
	marker *Term
	a, b   *SeqV
}

func (st *State) top() *Frame { return st.frames[len(st.frames)-1] }

func (st *State) clone() *State {
	n := &State{defDeps: st.defDeps, pure: st.pure, chanVer: st.chanVer, steps: st.steps, definable: st.definable, opaque: st.opaque, opaqueNfresh: st.opaqueNfresh, evBase: st.evBase}
	n.baseFrames = st.baseFrames
	n.frames = make([]*Frame, len(st.frames))
	for i, f := range st.frames {
		if i < st.baseFrames {
			n.frames[i] = f // frames below a pure evaluation are never touched by it
			continue
		}
		nf := *f
		nf.env = make(map[ssa.Value]Value, len(f.env))
		for k, v := range f.env {
			nf.env[k] = v
		}
		nf.defers = append([]*deferred{}, f.defers...)
		nf.loopHit = map[int]int{}
		for k, v := range f.loopHit {
			nf.loopHit[k] = v
		}
		nf.cuts = map[int]*loopCut{}
		for k, v := range f.cuts {
			nf.cuts[k] = v
		}
		n.frames[i] = &nf
	}
	n.heap = make(map[string]*Term, len(st.heap))
	for k, v := range st.heap {
		n.heap[k] = v
	}
	n.pc = append([]*Term{}, st.pc...)
	n.branch = append([]*Term{}, st.branch...)
	n.events = append([]*Event{}, st.events...)
	n.locks = map[string]int{}
	for k, v := range st.locks {
		n.locks[k] = v
	}
	n.fresh = make([]*freshObj, len(st.fresh))
	for i, f := range st.fresh {
		c := *f
		n.fresh[i] = &c
	}
	n.chanQ = map[int][]chanQuery{}
	for k, v := range st.chanQ {
		n.chanQ[k] = append([]chanQuery{}, v...)
	}
	n.trail = append([]string{}, st.trail...)
	n.reads = st.reads
	n.ghostCells = st.ghostCells
	n.havocPending = st.havocPending
	n.closerFresh = st.closerFresh
	n.closerSpawned = st.closerSpawned
	n.guardVals = st.guardVals
	n.recDone = st.recDone
	n.guardSnaps = st.guardSnaps
	if st.defs != nil {
		n.defs = map[int]*seqDef{}
		for k, v := range st.defs {
			n.defs[k] = v
		}
	}
	return n
}

func cloneHeap(h map[string]*Term) map[string]*Term {
	n := make(map[string]*Term, len(h))
	for k, v := range h {
		n[k] = v
	}
	return n
}

type Obligation struct {
	Func   string
	Name   string
	Kind   string
	Tags   []string
	Desc   string
	PC     []*Term
	Goal   *Term
	ShortTimeout bool
	QFTimedOut bool // the ground-instantiated first attempt hit its time limit
	FirstStatus string // status of the first attempt when the obligation was retried with a larger budget
	Cover  bool // vacuity check: PC (and Goal) must be satisfiable
	Alts   [][]*Term // cover.any: alternative path conditions, one of which must be satisfiable
	ctx    *Ctx
	Inputs []namedTerm // function inputs for model extraction
	Trail  string
	// results
	Status  string // unsat | sat | unknown | trivially
	Solver  string
	TimeMS  int64
	Model   map[string]string
	Output  string
	Instances int
	Hash   string
	origins map[int][]string // see Machine.origins
	DefDeps []string         // callee clauses used definitionally on this path (result content := spec)
}

type namedTerm struct {
	Name string
	T    *Term
}

type Machine struct {
	P    *Program
	ctx  *Ctx
	ts   *TypeSys
	mode Mode
	fn   *ssa.Function
	fc   *FuncContract

	obls      []*Obligation
	oblSeen   map[string]bool
	work      []*State
	paths     int
	maxPaths  int
	typeCodes map[string]int64
	typeOf    map[int64]types.Type
	fnCodes   map[*ssa.Function]int64
	fnOf      map[int64]*ssa.Function
	implUsed  map[string]*types.Interface
	globals   map[*ssa.Global]int64
	trusted   map[string]bool
	usedContracts map[string]bool
	origins       map[int][]string // PC term id -> callee clauses ("callee|index") it was assumed from
	problems  []string
	loops     map[*ssa.Function]*loopInfo
	loopHavoc map[string]map[string]bool // "fn#hdr" -> memory names to havoc
	restart   bool
	ordCache  map[*ssa.Function]map[ssa.Instruction]int
	inputs    []namedTerm
	retPaths  int
	curTags   []string
	baseInfo  map[int]*baseArrInfo
	inlineDepthMax int
	entryState *State
	coverPCs  [][]*Term
	ctxParent map[int]*Iface
	runeSrc   map[int]*runeInfo
	refute    bool
	lastFn    *ssa.Function
	lastIns   ssa.Instruction
	synth     map[string]*ssa.Function
	knownCode map[int]*ssa.Function
	assignLocs []*Ptr
	ownedChans map[int]bool
	transferred map[int]bool
	spawnLocal map[int]bool
	assumingPre bool
	reject      *Clause // reject pass: this clause replaces the preconditions; no normal return may be reachable
	entryLocks map[string]int
	iterCut *loopCut // the cut of the loop whose iter clauses are being evaluated
	guardedMaps map[int]bool
	onlyProp  string // when set, only clauses tagged with this property are evaluated
	recCache  map[*ssa.Function]bool
	recReads  map[*ssa.Function][]string
	recDepth  map[*ssa.Function]int
	readTrack map[string]bool
	memSortOf map[string]*Sort
	bodyOf    *ssa.Function
	anteCover map[string][][]*Term
	anteOrder []string
	anteTags  map[string][]string
	debug     bool
}

type baseArrInfo struct {
	nfresh  int          // number of fresh objects at creation
	escaped map[int]bool // ids (term ids) of escaped fresh refs at creation
}

type loopInfo struct {
	headers []*ssa.BasicBlock          // in block-index order
	ord     map[*ssa.BasicBlock]int    // header -> 1-based ordinal
	body    map[*ssa.BasicBlock]map[*ssa.BasicBlock]bool
}

func (m *Machine) problem(format string, a ...interface{}) {
	s := fmt.Sprintf(format, a...)
	for _, p := range m.problems {
		if p == s {
			return
		}
	}
	m.problems = append(m.problems, s)
}

func computeLoops(fn *ssa.Function) *loopInfo {
	li := &loopInfo{ord: map[*ssa.BasicBlock]int{}, body: map[*ssa.BasicBlock]map[*ssa.BasicBlock]bool{}}
	for _, b := range fn.Blocks {
		for _, p := range b.Preds {
			if b.Dominates(p) {
				if li.body[b] == nil {
					li.body[b] = map[*ssa.BasicBlock]bool{b: true}
					li.headers = append(li.headers, b)
				}
				// natural loop of back edge p->b
				var stack []*ssa.BasicBlock
				if !li.body[b][p] {
					li.body[b][p] = true
					stack = append(stack, p)
				}
				for len(stack) > 0 {
					x := stack[len(stack)-1]
					stack = stack[:len(stack)-1]
					for _, q := range x.Preds {
						if !li.body[b][q] {
							li.body[b][q] = true
							stack = append(stack, q)
						}
					}
				}
			}
		}
	}
	sort.Slice(li.headers, func(i, j int) bool { return li.headers[i].Index < li.headers[j].Index })
	for i, h := range li.headers {
		li.ord[h] = i + 1
	}
	return li
}

// ---------- memory ----------

func (m *Machine) memSort(name string, l leaf, elemMem bool) *Sort {
	if elemMem {
		return ArrSort(IntSort, ArrSort(m.ts.Idx(), l.sort))
	}
	return ArrSort(IntSort, l.sort)
}

func (m *Machine) heapGet(st *State, name string, s *Sort) *Term {
	if m.readTrack != nil {
		m.readTrack[name] = true
	}
	m.memSortOf[name] = s
	if t, ok := st.heap[name]; ok {
		if t.sort != s {
			panic(fmt.Sprintf("heap sort mismatch for %s: %s vs %s", name, t.sort, s))
		}
		return t
	}
	if st.havocPending[name] {
		t := m.ctx.Fresh("Hv."+name, s)
		m.baseInfo[t.id] = &baseArrInfo{nfresh: m.ctx.nfresh, escaped: map[int]bool{}}
		st.heap[name] = t
		return t
	}
	if name == "chan.closedByMe" {
		// nothing has been closed by this activation yet
		t := m.ctx.ConstArr(s, m.ctx.F)
		st.heap[name] = t
		return t
	}
	t := m.ctx.Var("H0."+name, s)
	if m.baseInfo[t.id] == nil {
		m.baseInfo[t.id] = &baseArrInfo{nfresh: 0, escaped: map[int]bool{}}
	}
	st.heap[name] = t
	return t
}

func leafName(mem, path string) string {
	if path == "" {
		return mem + "."
	}
	return mem + "." + path
}

// subLeaves returns the leaves of p.Elem with the full leaf path inside the memory family.
func (m *Machine) ptrLeaves(p *Ptr) []leaf {
	ls := m.ts.Leaves(p.Elem)
	out := make([]leaf, len(ls))
	for i, l := range ls {
		out[i] = leaf{joinPath(p.Path, l.path), l.sort, l.kind, l.typ}
	}
	return out
}

func (m *Machine) isElemMem(p *Ptr) bool { return strings.HasPrefix(p.Mem, "elem<") }

func (m *Machine) Load(st *State, p *Ptr) Value {
	if p.Idx == nil && p.Path == "" {
		if v, ok := st.ghostCells[p.Ref.id]; ok {
			return v // engine-level cell (ghost value or interior pointer captured by a closure)
		}
	}
	if isSeqType(p.Elem) {
		if v, ok := st.ghostCells[p.Ref.id]; ok && p.Idx == nil && p.Path == "" {
			return v
		}
		panic(unsupported("ghost value (seq/msnap) in memory"))
	}
	ls := m.ptrLeaves(p)
	terms := make([]*Term, len(ls))
	elem := m.isElemMem(p)
	for i, l := range ls {
		name := leafName(p.Mem, l.path)
		arr := m.heapGet(st, name, m.memSort(name, l, elem))
		var t *Term
		if elem {
			if p.Idx == nil {
				panic(unsupported("load of whole array"))
			}
			t = m.ctx.Select(m.ctx.Select(arr, p.Ref), p.Idx)
		} else {
			t = m.ctx.Select(arr, p.Ref)
		}
		terms[i] = t
	}
	v := m.ts.Unflatten(p.Elem, &terms)
	m.assumeWellFormed(st, p.Elem, v)
	if _, isMap := p.Elem.Underlying().(*types.Map); isMap && p.Idx == nil {
		for _, g := range m.P.Contracts.Guards {
			if g.Field == p.Mem+"."+p.Path {
				if t, isT := v.(*Term); isT {
					m.guardedMaps[t.id] = true
				}
			}
		}
	}
	if owner, ok := m.P.Contracts.Closers[p.Mem+"."+p.Path]; ok && (owner == relName(m.fn) || strings.HasPrefix(owner, relName(m.fn)+"$")) {
		if t, isT := v.(*Term); isT {
			m.ownedChans[t.id] = true
		}
	}
	return v
}

func (m *Machine) Store(st *State, p *Ptr, v Value) {
	if st.pure && !m.isFreshRef(st, p.Ref) {
		panic(unsupported("store to pre-existing memory in pure (ghost) code"))
	}
	interior := false
	if ip, ok := v.(*Ptr); ok && (ip.Idx != nil || ip.Path != "") {
		interior = true
	}
	if (isSeqType(p.Elem) || interior) && p.Idx == nil && p.Path == "" && m.isFreshRef(st, p.Ref) {
		nc := make(map[int]Value, len(st.ghostCells)+1)
		for k, x := range st.ghostCells {
			nc[k] = x
		}
		nc[p.Ref.id] = v
		st.ghostCells = nc
		return
	}
	ls := m.ptrLeaves(p)
	terms := m.ts.Flatten(p.Elem, v)
	if len(terms) != len(ls) {
		panic(fmt.Sprintf("store: %d leaves vs %d terms for %s", len(ls), len(terms), p.Elem))
	}
	elem := m.isElemMem(p)
	for i, l := range ls {
		name := leafName(p.Mem, l.path)
		arr := m.heapGet(st, name, m.memSort(name, l, elem))
		if elem {
			if p.Idx == nil {
				panic(unsupported("store of whole array"))
			}
			inner := m.ctx.Select(arr, p.Ref)
			st.heap[name] = m.ctx.Store(arr, p.Ref, m.ctx.Store(inner, p.Idx, terms[i]))
		} else {
			st.heap[name] = m.ctx.Store(arr, p.Ref, terms[i])
		}
	}
	if _, ok := m.P.Contracts.Closers[p.Mem+"."+p.Path]; ok {
		if t, isT := v.(*Term); isT && m.isLocalRef(st, t) {
			nc := map[int]bool{t.id: true}
			for k := range st.closerFresh {
				nc[k] = true
			}
			st.closerFresh = nc
		}
	}
	// anything stored into memory that is not a non-escaped fresh object escapes
	if !m.isLocalRef(st, p.Ref) {
		m.escapeValue(st, p.Elem, v)
	}
}

func (m *Machine) isFreshRef(st *State, r *Term) bool {
	for _, f := range st.fresh {
		if f.ref == r {
			return true
		}
	}
	return false
}

// isLocalRef: r is a fresh object that has not escaped on this path.
func (m *Machine) isLocalRef(st *State, r *Term) bool {
	for _, f := range st.fresh {
		if f.ref == r {
			return !f.escaped
		}
	}
	return false
}

func (m *Machine) freshObjOf(st *State, r *Term) *freshObj {
	for _, f := range st.fresh {
		if f.ref == r {
			return f
		}
	}
	return nil
}

// escapeValue marks every fresh object reachable from v as escaped.
func (m *Machine) escapeValue(st *State, t types.Type, v Value) {
	var refs []*Term
	m.collectRefs(t, v, &refs)
	for _, r := range refs {
		m.escapeRef(st, r)
	}
}

func (m *Machine) collectRefs(t types.Type, v Value, out *[]*Term) {
	switch x := v.(type) {
	case *Term:
		if x.sort == IntSort {
			switch t.Underlying().(type) {
			case *types.Map, *types.Chan, *types.Signature, *types.Pointer:
				*out = append(*out, x)
			}
		}
	case *Ptr:
		*out = append(*out, x.Ref)
	case *Slice:
		*out = append(*out, x.Arr)
	case *Iface:
		*out = append(*out, x.Val)
	case *Tuple:
		switch u := t.Underlying().(type) {
		case *types.Struct:
			for i, e := range x.Elems {
				m.collectRefs(u.Field(i).Type(), e, out)
			}
		case *types.Tuple:
			for i, e := range x.Elems {
				m.collectRefs(u.At(i).Type(), e, out)
			}
		}
	}
}

func (m *Machine) escapeRef(st *State, r *Term) {
	if r.op == "ite" {
		m.escapeRef(st, r.args[1])
		m.escapeRef(st, r.args[2])
		return
	}
	f := m.freshObjOf(st, r)
	if f == nil || f.escaped {
		return
	}
	f.escaped = true
	// transitively: everything stored in the object
	if f.typ == nil {
		return
	}
	defer func() {
		if e := recover(); e != nil {
			if _, ok := e.(unsupportedErr); ok {
				return
			}
			panic(e)
		}
	}()
	if f.isArr {
		// elements may hold references; conservatively escape every fresh object whose ref occurs in the array term
		for _, l := range m.ts.Leaves(f.typ) {
			if l.kind != 'r' {
				continue
			}
			name := leafName(f.mem, l.path)
			if arr, ok := st.heap[name]; ok {
				m.escapeOccurring(st, m.ctx.Select(arr, f.ref))
			}
		}
		return
	}
	for _, l := range m.ts.Leaves(f.typ) {
		if l.kind != 'r' {
			continue
		}
		name := leafName(f.mem, l.path)
		if arr, ok := st.heap[name]; ok {
			m.escapeOccurring(st, m.ctx.Select(arr, f.ref))
		}
	}
}

// escapeOccurring escapes every fresh object whose numeral occurs in t.
func (m *Machine) escapeOccurring(st *State, t *Term) {
	seen := map[int]bool{}
	var rec func(t *Term)
	rec = func(t *Term) {
		if seen[t.id] {
			return
		}
		seen[t.id] = true
		if t.IsNum() && t.sort == IntSort && t.num.Cmp(freshBase) >= 0 {
			m.escapeRef(st, t)
			return
		}
		for _, a := range t.args {
			rec(a)
		}
	}
	rec(t)
}

func (m *Machine) newRef(st *State, typ types.Type, mem string, isArr bool, site string) *Term {
	m.ctx.nfresh++
	n := new(big.Int).Add(freshBase, big.NewInt(int64(m.ctx.nfresh)))
	r := m.ctx.IntBig(n)
	r.rc = rcFresh
	st.fresh = append(st.fresh, &freshObj{ref: r, typ: typ, mem: mem, isArr: isArr, site: site})
	return r
}

// Alloc creates a zero-initialised object of type t and returns a pointer to it.
func (m *Machine) Alloc(st *State, t types.Type, site string) *Ptr {
	if a, ok := t.Underlying().(*types.Array); ok {
		mem := m.ts.ElemMem(a.Elem())
		r := m.newRef(st, a.Elem(), mem, true, site)
		for _, l := range m.ts.Leaves(a.Elem()) {
			name := leafName(mem, l.path)
			arr := m.heapGet(st, name, m.memSort(name, l, true))
			st.heap[name] = m.ctx.Store(arr, r, m.ctx.ConstArr(ArrSort(m.ts.Idx(), l.sort), m.ts.zeroOf(l.sort)))
		}
		return &Ptr{Mem: mem, Ref: r, Elem: t}
	}
	mem := m.ts.MemFor(t)
	if isSeqType(t) {
		r := m.newRef(st, nil, mem, false, site)
		return &Ptr{Mem: mem, Ref: r, Elem: t}
	}
	r := m.newRef(st, t, mem, false, site)
	for _, l := range m.ts.Leaves(t) {
		name := leafName(mem, l.path)
		arr := m.heapGet(st, name, m.memSort(name, l, false))
		st.heap[name] = m.ctx.Store(arr, r, m.ts.zeroOf(l.sort))
	}
	if n, ok := t.(*types.Named); ok && n.Obj().Pkg() != nil && n.Obj().Pkg().Path() == "sync" && n.Obj().Name() == "Once" {
		a := m.heapGet(st, "once.done", ArrSort(IntSort, BoolSort))
		st.heap["once.done"] = m.ctx.Store(a, r, m.ctx.F)
	}
	return &Ptr{Mem: mem, Ref: r, Elem: t}
}

// AllocArray creates a fresh backing array for n elements of type elem with the given content
// (content may be nil: zero-filled).
func (m *Machine) AllocArray(st *State, elem types.Type, content map[string]*Term, site string) *Term {
	mem := m.ts.ElemMem(elem)
	r := m.newRef(st, elem, mem, true, site)
	for _, l := range m.ts.Leaves(elem) {
		name := leafName(mem, l.path)
		arr := m.heapGet(st, name, m.memSort(name, l, true))
		var c *Term
		if content != nil && content[l.path] != nil {
			c = content[l.path]
		} else {
			c = m.ctx.ConstArr(ArrSort(m.ts.Idx(), l.sort), m.ts.zeroOf(l.sort))
		}
		st.heap[name] = m.ctx.Store(arr, r, c)
	}
	return r
}

// elemArr returns the content array (Idx -> leaf) of backing array ref for leaf path.
func (m *Machine) elemArr(st *State, elem types.Type, ref *Term, l leaf) *Term {
	mem := m.ts.ElemMem(elem)
	name := leafName(mem, l.path)
	arr := m.heapGet(st, name, m.memSort(name, l, true))
	return m.ctx.Select(arr, ref)
}

func (m *Machine) setElemArr(st *State, elem types.Type, ref *Term, l leaf, content *Term) {
	mem := m.ts.ElemMem(elem)
	name := leafName(mem, l.path)
	arr := m.heapGet(st, name, m.memSort(name, l, true))
	st.heap[name] = m.ctx.Store(arr, ref, content)
}

// ---------- assumptions ----------

func (st *State) assume(t *Term) {
	if t.IsTrue() {
		return
	}
	if t.IsFalse() {
		st.dead = true
		if debugDead {
			fmt.Fprintf(os.Stderr, "path dies on assume(false): trail=%v\n%s\n", st.trail, debug.Stack())
		}
	}
	st.pc = append(st.pc, t)
}

func (st *State) assumeBranch(t *Term) {
	st.assume(t)
	st.branch = append(st.branch, t)
}

var maxLen = new(big.Int).Lsh(big.NewInt(1), 48)

func (m *Machine) idxLe(a, b *Term) *Term {
	if m.mode == ModeInt {
		return m.ctx.ILe(a, b)
	}
	return m.ctx.BVCmp("bvsle", a, b)
}
func (m *Machine) idxLt(a, b *Term) *Term {
	if m.mode == ModeInt {
		return m.ctx.ILt(a, b)
	}
	return m.ctx.BVCmp("bvslt", a, b)
}
func (m *Machine) idxAdd(a, b *Term) *Term {
	if m.mode == ModeInt {
		return m.ctx.IAdd(a, b)
	}
	return m.ctx.BVBin("bvadd", a, b)
}
func (m *Machine) idxSub(a, b *Term) *Term {
	if m.mode == ModeInt {
		return m.ctx.ISub(a, b)
	}
	return m.ctx.BVBin("bvsub", a, b)
}

var wfSeen = map[*Ctx]map[string]bool{}

// assumeWellFormed adds the representation invariants of a symbolic value (lengths
// non-negative and bounded, references allocated).
func (m *Machine) assumeWellFormed(st *State, t types.Type, v Value) {
	switch x := v.(type) {
	case *Slice:
		if x.Len.IsNum() && x.Cap.IsNum() && x.Off.IsNum() {
			return
		}
		z := m.ts.IdxConst(0)
		mx := m.ts.NumConst(maxLen, m.ts.Idx())
		m.assumeOnce(st, m.ctx.And(m.idxLe(z, x.Off), m.idxLe(z, x.Len), m.idxLe(x.Len, x.Cap), m.idxLe(x.Cap, mx), m.idxLe(x.Off, mx),
			m.ctx.Implies(m.ctx.Eq(x.Arr, m.ctx.Int(0)), m.ctx.Eq(x.Cap, z))))
		m.assumeRef(st, x.Arr)
	case *Str:
		if x.Len.IsNum() {
			return
		}
		z := m.ts.IdxConst(0)
		mx := m.ts.NumConst(maxLen, m.ts.Idx())
		m.assumeOnce(st, m.ctx.And(m.idxLe(z, x.Len), m.idxLe(x.Len, mx)))
	case *Ptr:
		m.assumeRef(st, x.Ref)
	case *Iface:
		m.assumeRef(st, x.Val)
		if !x.Tag.IsNum() {
			m.assumeOnce(st, m.ctx.And(m.ctx.ILe(m.ctx.Int(0), x.Tag), m.ctx.Implies(m.ctx.Eq(x.Tag, m.ctx.Int(0)), m.ctx.Eq(x.Val, m.ctx.Int(0)))))
		}
	case *Term:
		if x.sort == IntSort {
			switch t.Underlying().(type) {
			case *types.Chan:
				m.assumeRef(st, x)
				if !x.IsNum() {
					// channels of different element types are different objects
					m.assumeOnce(st, m.ctx.Or(m.ctx.Eq(x, m.ctx.Int(0)), m.ctx.Eq(m.ctx.App("chanElemT", IntSort, x), m.ctx.Int(m.typeCode(t.Underlying().(*types.Chan).Elem())))))
				}
			case *types.Map, *types.Signature, *types.Pointer:
				m.assumeRef(st, x)
			case *types.Basic:
				m.assumeIntRange(st, t, x)
			}
		}
	case *Tuple:
		switch u := t.Underlying().(type) {
		case *types.Struct:
			for i, e := range x.Elems {
				m.assumeWellFormed(st, u.Field(i).Type(), e)
			}
		case *types.Tuple:
			for i, e := range x.Elems {
				m.assumeWellFormed(st, u.At(i).Type(), e)
			}
		}
	}
}

func (m *Machine) assumeIntRange(st *State, t types.Type, x *Term) {
	if m.mode != ModeInt || x.IsNum() {
		return
	}
	b, ok := t.Underlying().(*types.Basic)
	if !ok {
		return
	}
	w, signed, ok := basicWidth(b)
	if !ok {
		return
	}
	lo, hi := intRange(w, signed)
	m.assumeOnce(st, m.ctx.And(m.ctx.ILe(m.ctx.IntBig(lo), x), m.ctx.ILe(x, m.ctx.IntBig(hi))))
}

func intRange(w int, signed bool) (*big.Int, *big.Int) {
	if signed {
		hi := new(big.Int).Lsh(big.NewInt(1), uint(w-1))
		lo := new(big.Int).Neg(hi)
		return lo, hi.Sub(hi, big.NewInt(1))
	}
	hi := new(big.Int).Lsh(big.NewInt(1), uint(w))
	return big.NewInt(0), hi.Sub(hi, big.NewInt(1))
}

func (m *Machine) assumeOnce(st *State, t *Term) {
	for _, p := range st.pc {
		if p == t {
			return
		}
	}
	st.assume(t)
}

// assumeRef: a reference read from memory / input is nil, an old object, or an object allocated so far.
func (m *Machine) assumeRef(st *State, r *Term) {
	if r.IsNum() {
		return
	}
	if r.rc == rcOld {
		m.assumeOnce(st, m.ctx.And(m.ctx.ILe(m.ctx.Int(0), r), m.ctx.ILt(r, m.ctx.IntBig(freshBase))))
		return
	}
	if r.op == "ite" {
		m.assumeRef(st, r.args[1])
		m.assumeRef(st, r.args[2])
		return
	}
	hi := new(big.Int).Add(freshBase, big.NewInt(int64(m.ctx.nfresh+1)))
	conj := []*Term{m.ctx.ILe(m.ctx.Int(0), r), m.ctx.ILt(r, m.ctx.IntBig(hi))}
	for _, f := range st.fresh {
		if !f.escaped && !st.aliasOK[f.ref.id] {
			conj = append(conj, m.ctx.Neq(r, f.ref))
		}
	}
	m.assumeOnce(st, m.ctx.And(conj...))
}

// ---------- havoc ----------

// havocName replaces memory `name` by a fresh array, preserving the entries of
// non-escaped fresh objects unless keepLocal is false.
func (m *Machine) havocName(st *State, name string, keepLocal bool, except map[string]bool) {
	old, ok := st.heap[name]
	if !ok {
		srt, known := m.memSortOf[name]
		if !known {
			// never read or written anywhere so far: remember that later reads must not see the initial heap
			if st.havocPending == nil {
				st.havocPending = map[string]bool{}
			} else {
				np := map[string]bool{}
				for k := range st.havocPending {
					np[k] = true
				}
				st.havocPending = np
			}
			st.havocPending[name] = true
			return
		}
		old = m.heapGet(st, name, srt)
	}
	nw := m.ctx.Fresh("Hv."+name, old.sort)
	esc := map[int]bool{}
	for _, f := range st.fresh {
		if f.escaped {
			esc[f.ref.id] = true
		}
	}
	m.baseInfo[nw.id] = &baseArrInfo{nfresh: m.ctx.nfresh, escaped: esc}
	res := nw
	if keepLocal {
		for _, f := range st.fresh {
			if f.escaped {
				continue
			}
			if !strings.HasPrefix(name, f.mem+".") {
				continue
			}
			if except != nil && except[fmt.Sprintf("%s@%d", name, f.ref.id)] {
				continue
			}
			res = m.ctx.Store(res, f.ref, m.ctx.Select(old, f.ref))
		}
	}
	st.heap[name] = res
}

// havocLoc assigns fresh values to the location p.
func (m *Machine) havocLoc(st *State, p *Ptr, prefix string) {
	v := m.ts.FreshValue(prefix, p.Elem)
	// a havoced location may hold any allocated reference
	saved := st.pure
	st.pure = false
	m.Store(st, p, v)
	st.pure = saved
	m.assumeWellFormed(st, p.Elem, v)
}

func (m *Machine) trace(st *State, s string) {
	if len(st.trail) < 400 {
		st.trail = append(st.trail, s)
	}
}

var debugDead = os.Getenv("GOVC_DEBUGDEAD") != ""
