package main

import (
	"fmt"
	"math/big"

	"golang.org/x/tools/go/ssa"
)

func bigInt(v int64) *big.Int { return big.NewInt(v) }
func bigAdd(a *big.Int, k int64) *big.Int { return new(big.Int).Add(a, big.NewInt(k)) }

// SubstVar replaces every occurrence of the closed leaf term v in t by arg.
func (c *Ctx) SubstVar(t, v, arg *Term) *Term {
	memo := map[int]*Term{}
	var rec func(t *Term) *Term
	rec = func(t *Term) *Term {
		if t == v {
			return arg
		}
		if len(t.args) == 0 {
			return t
		}
		if r, ok := memo[t.id]; ok {
			return r
		}
		var r *Term
		if len(t.bvars) > 0 {
			nb := rec(t.args[0])
			switch t.op {
			case "lambda":
				r = c.Lambda(t.bvars[0], nb)
			case "forall":
				r = c.Forall(t.bvars, nb)
			case "exists":
				r = c.Exists(t.bvars, nb)
			}
		} else {
			na := make([]*Term, len(t.args))
			changed := false
			for i, a := range t.args {
				na[i] = rec(a)
				if na[i] != a {
					changed = true
				}
			}
			if changed {
				r = c.rebuild(t, na)
			} else {
				r = t
			}
		}
		memo[t.id] = r
		return r
	}
	return rec(t)
}

// distinctHook: engine knowledge about references (see DESIGN §2.4 memory).
// b is expected to be a fresh-object numeral.
func (m *Machine) distinctHook(a, b *Term) bool {
	if b.IsNum() && b.sort == IntSort && b.num.Cmp(freshBase) > 0 {
		return m.cannotBe(a, b, 0)
	}
	if a.IsNum() && a.sort == IntSort && a.num.Cmp(freshBase) > 0 {
		return m.cannotBe(b, a, 0)
	}
	return false
}

func (m *Machine) cannotBe(a, o *Term, depth int) bool {
	if depth > 60 {
		return false
	}
	switch a.op {
	case "num":
		return a.num.Cmp(o.num) != 0
	case "var":
		return a.rc == rcOld
	case "ite":
		return m.cannotBe(a.args[1], o, depth+1) && m.cannotBe(a.args[2], o, depth+1)
	case "select":
		// content of objects we did not allocate ourselves and that are not known to be old
		// (e.g. objects allocated by a callee) is unconstrained
		if !m.knownIndex(a) {
			return false
		}
		return m.arrCannotHold(a.args[0], o, depth+1)
	}
	return false
}

// knownIndex: the object index of a memory read select(M, ref) / select(select(M, ref), i)
// is an old object or one of our own allocations.
func (m *Machine) knownIndex(sel *Term) bool {
	idx := sel.args[1]
	if inner := sel.args[0]; inner.op == "select" && inner.sort.K == SArr && idx.sort != IntSort {
		idx = inner.args[1]
	} else if inner.op == "select" && inner.sort.K == SArr && inner.args[0].sort.K == SArr && inner.args[0].sort.Idx == IntSort && inner.args[0].sort.Elem.K == SArr {
		idx = inner.args[1]
	}
	if idx.sort != IntSort {
		return true
	}
	return idx.rc == rcOld || idx.IsNum()
}

// arrCannotHold: no element of array term arr (possibly nested) can be the fresh object o.
func (m *Machine) arrCannotHold(arr, o *Term, depth int) bool {
	if depth > 60 {
		return false
	}
	switch arr.op {
	case "var":
		info := m.baseInfo[arr.id]
		if info == nil {
			return false
		}
		k := new(big.Int).Sub(o.num, freshBase).Int64()
		return k > int64(info.nfresh) || !info.escaped[o.id]
	case "store":
		v := arr.args[2]
		var okv bool
		if v.sort.K == SArr {
			okv = m.arrCannotHold(v, o, depth+1)
		} else {
			okv = m.cannotBe(v, o, depth+1)
		}
		return okv && m.arrCannotHold(arr.args[0], o, depth+1)
	case "select":
		return m.arrCannotHold(arr.args[0], o, depth+1)
	case "constarr":
		v := arr.args[0]
		if v.sort.K == SArr {
			return m.arrCannotHold(v, o, depth+1)
		}
		return m.cannotBe(v, o, depth+1)
	case "ite":
		return m.arrCannotHold(arr.args[1], o, depth+1) && m.arrCannotHold(arr.args[2], o, depth+1)
	case "lambda":
		return m.bodyCannot(arr.args[0], o, depth+1)
	}
	return false
}

func (m *Machine) bodyCannot(t, o *Term, depth int) bool {
	if depth > 60 {
		return false
	}
	switch t.op {
	case "ite":
		return m.bodyCannot(t.args[1], o, depth+1) && m.bodyCannot(t.args[2], o, depth+1)
	case "select":
		return m.arrCannotHold(t.args[0], o, depth+1)
	case "num":
		return t.num.Cmp(o.num) != 0
	case "var":
		return t.rc == rcOld
	}
	return false
}

// NegSkolem returns a formula equivalent (for satisfiability) to (not t) in which
// universally quantified parts of t have been replaced by fresh Skolem constants.
func (c *Ctx) NegSkolem(t *Term) *Term { return c.polar(t, false) }

// PosSkolem skolemises existentials that occur positively in an assumption.
func (c *Ctx) PosSkolem(t *Term) *Term { return c.polar(t, true) }

func (c *Ctx) polar(t *Term, pos bool) *Term {
	switch t.op {
	case "not":
		return c.polar(t.args[0], !pos)
	case "and", "or":
		isAnd := (t.op == "and") == pos
		var parts []*Term
		for _, a := range t.args {
			parts = append(parts, c.polar(a, pos))
		}
		if isAnd {
			return c.And(parts...)
		}
		return c.Or(parts...)
	case "forall", "exists":
		if t.hasBound {
			break
		}
		skolemisable := (t.op == "forall") != pos
		if skolemisable {
			body := t.args[0]
			for _, b := range t.bvars {
				sk := c.Fresh("sk."+b.name, b.sort)
				body = c.Subst(body, b, sk)
			}
			return c.polar(body, pos)
		}
	case "ite":
		if t.sort == BoolSort {
			// ite(c, a, b) = (c and a) or (not c and b); condition occurs in both polarities: keep as is
			cnd := t.args[0]
			return c.Or(c.And(cnd, c.polar(t.args[1], pos)), c.And(c.Not(cnd), c.polar(t.args[2], pos)))
		}
	}
	if pos {
		return t
	}
	return c.Not(t)
}

// instantiate: ground instances of the universally quantified hypotheses among fs at the index
// terms that occur in fs (a one-round, engine-side E-matching that makes the common
// "invariant at the current index" step independent of the solvers' trigger heuristics).
func (c *Ctx) instantiate(fs []*Term) []*Term {
	// candidate ground index terms, per sort; and per (base) array they index
	cands := map[*Sort][]*Term{}
	byArr := map[int][]*Term{}
	seenC := map[int]bool{}
	seenA := map[[2]int]bool{}
	seen := map[int]bool{}
	base := func(a *Term) *Term {
		for a.op == "store" {
			a = a.args[0]
		}
		return a
	}
	var collect func(t *Term)
	collect = func(t *Term) {
		if seen[t.id] {
			return
		}
		seen[t.id] = true
		if t.op == "select" {
			arr := base(t.args[0])
			var add func(idx *Term, depth int)
			add = func(idx *Term, depth int) {
				if idx.hasBound || !(idx.sort == IntSort || idx.sort.K == SBV) || idx.IsNum() {
					return
				}
				if !arr.hasBound && !seenA[[2]int{arr.id, idx.id}] {
					seenA[[2]int{arr.id, idx.id}] = true
					byArr[arr.id] = append(byArr[arr.id], idx)
				}
				if !seenC[idx.id] {
					seenC[idx.id] = true
					cands[idx.sort] = append(cands[idx.sort], idx)
				}
				// off+i: the quantified index is usually i, not the absolute element position
				if (idx.op == "+" || idx.op == "bvadd") && depth < 2 {
					for _, a := range idx.args {
						add(a, depth+1)
					}
				}
			}
			add(t.args[1], 0)
		}
		for _, a := range t.args {
			collect(a)
		}
	}
	var foralls, foralls2 []*Term
	var findForalls func(t *Term, pos bool)
	findForalls = func(t *Term, pos bool) {
		switch t.op {
		case "and":
			if pos {
				for _, a := range t.args {
					findForalls(a, pos)
				}
			}
		case "forall":
			if pos && !t.hasBound && len(t.bvars) == 1 {
				foralls = append(foralls, t)
			}
			if pos && !t.hasBound && len(t.bvars) == 2 {
				foralls2 = append(foralls2, t)
			}
		}
	}
	for _, f := range fs {
		collect(f)
		findForalls(f, true)
	}
	var out []*Term
	n := 0
	// two bound variables (forallGrid): fix the first one at the candidate rows, keep the second quantified
	for _, q := range foralls2 {
		b0, b1 := q.bvars[0], q.bvars[1]
		var rows []*Term
		rowSeen := map[int]bool{}
		seenB := map[int]bool{}
		var walk func(t *Term)
		walk = func(t *Term) {
			if seenB[t.id] || !t.hasBound {
				return
			}
			seenB[t.id] = true
			if t.op == "select" && t.args[1].hasBound {
				arr := base(t.args[0])
				if !arr.hasBound {
					for _, idx := range byArr[arr.id] {
						if idx.sort == b0.sort && !rowSeen[idx.id] {
							rowSeen[idx.id] = true
							rows = append(rows, idx)
						}
					}
				}
			}
			for _, a := range t.args {
				walk(a)
			}
		}
		walk(q.args[0])
		for i, r := range rows {
			if i >= 12 {
				break
			}
			inner := c.Subst(q.args[0], b0, r)
			if inner.IsTrue() {
				continue
			}
			f1 := c.Forall([]*Term{b1}, inner)
			out = append(out, f1)
			foralls = append(foralls, f1)
		}
	}
	for _, q := range foralls {
		bv := q.bvars[0]
		// arrays the body reads at a bound index: their other indices come first
		var pri []*Term
		priSeen := map[int]bool{}
		seenB := map[int]bool{}
		var walk func(t *Term)
		walk = func(t *Term) {
			if seenB[t.id] || !t.hasBound {
				return
			}
			seenB[t.id] = true
			if t.op == "select" && t.args[1].hasBound {
				arr := base(t.args[0])
				if !arr.hasBound {
					for _, idx := range byArr[arr.id] {
						if idx.sort == bv.sort && !priSeen[idx.id] {
							priSeen[idx.id] = true
							pri = append(pri, idx)
						}
					}
				}
			}
			for _, a := range t.args {
				walk(a)
			}
		}
		walk(q.args[0])
		emit := func(t *Term) {
			inst := c.Subst(q.args[0], bv, t)
			if !inst.IsTrue() {
				out = append(out, inst)
				n++
			}
		}
		for i, t := range pri {
			if i >= 40 || n >= 400 {
				break
			}
			emit(t)
		}
		k := 0
		for _, t := range cands[bv.sort] {
			if k >= 24 || n >= 400 {
				break
			}
			if priSeen[t.id] {
				continue
			}
			k++
			emit(t)
		}
	}
	return out
}

// ---------- parameter names ----------

// paramAlias: function -> the names its contract uses for the parameters (declared with `params`). If the
// count matches the function on the current tree, clauses see the parameters under these names, so that a
// renamed parameter does not invalidate the contract.
var paramAlias = map[string][]string{}

func paramNameOf(fn *ssa.Function, i int) string {
	if al := paramAlias[relName(fn)]; len(al) == len(fn.Params) {
		return al[i]
	}
	n := fn.Params[i].Name()
	if n == "" || n == "_" {
		n = fmt.Sprintf("p%d", i)
	}
	return n
}

// freeVarNameOf: the name clauses use for a captured variable. A captured variable whose name collides with
// a (declared) parameter name is only possible after the parameter was renamed in the code; it is then
// visible as <name>_outer.
func freeVarNameOf(fn *ssa.Function, fv *ssa.FreeVar) string {
	for i := range fn.Params {
		if paramNameOf(fn, i) == fv.Name() {
			return fv.Name() + "_outer"
		}
	}
	return fv.Name()
}
