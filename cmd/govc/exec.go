package main

import (
	"fmt"
	"go/constant"
	"go/token"
	"go/types"
	"math/big"
	"sort"
	"strings"

	"golang.org/x/tools/go/ssa"
)

// ---------- instruction ordinals (stable obligation names) ----------

func (m *Machine) ordinal(fn *ssa.Function, ins ssa.Instruction, kind string) int {
	if m.ordCache == nil {
		m.ordCache = map[*ssa.Function]map[ssa.Instruction]int{}
	}
	oc := m.ordCache[fn]
	if oc == nil {
		oc = map[ssa.Instruction]int{}
		counts := map[string]int{}
		for _, b := range fn.Blocks {
			for _, i := range b.Instrs {
				k := instrKind(i)
				counts[k]++
				oc[i] = counts[k]
			}
		}
		m.ordCache[fn] = oc
	}
	return oc[ins]
}

func instrKind(i ssa.Instruction) string {
	switch x := i.(type) {
	case *ssa.IndexAddr, *ssa.Index:
		return "index"
	case *ssa.Slice:
		return "slice"
	case *ssa.MakeSlice:
		return "makeslice"
	case *ssa.UnOp:
		if x.Op == token.MUL {
			return "deref"
		}
		if x.Op == token.ARROW {
			return "recv"
		}
		return "unop"
	case *ssa.Store:
		return "store"
	case *ssa.FieldAddr:
		return "field"
	case *ssa.BinOp:
		return "binop." + x.Op.String()
	case *ssa.Call:
		if f := x.Call.StaticCallee(); f != nil {
			return "call." + f.Name()
		}
		if x.Call.IsInvoke() {
			return "call." + x.Call.Method.Name()
		}
		return "call.dyn"
	case *ssa.Panic:
		return "panic"
	case *ssa.TypeAssert:
		return "typeassert"
	case *ssa.Select:
		return "select"
	case *ssa.MapUpdate:
		return "mapupdate"
	case *ssa.Convert:
		return "convert"
	case *ssa.Go:
		return "go"
	case *ssa.Defer:
		return "defer"
	case *ssa.Send:
		return "send"
	}
	return fmt.Sprintf("%T", i)
}

// ---------- obligations ----------

func (m *Machine) oblige(st *State, fr *Frame, kind, detail string, goal *Term, tags []string, desc string) {
	if st.pure {
		return
	}
	if m.reject != nil {
		// reject pass: only the paths on which no run-time panic happened continue
		st.assume(goal)
		return
	}
	if goal.IsTrue() {
		m.recordObl(st, fr, kind, detail, goal, tags, desc, true)
		return
	}
	m.recordObl(st, fr, kind, detail, goal, tags, desc, false)
	st.assume(goal)
}

func (m *Machine) recordObl(st *State, fr *Frame, kind, detail string, goal *Term, tags []string, desc string, trivial bool) {
	if m.reject != nil && kind != "reject" {
		return
	}
	if strings.HasPrefix(kind, "safe.") && !hasTag(tags, "C06") {
		// a run-time panic anywhere in the client is a C06 matter ("the client never panics")
		tags = append(append([]string{}, tags...), "C06")
	}
	fname := relName(m.fn)
	name := kind
	if detail != "" {
		name += "." + detail
	}
	if fr != nil && fr.fn != m.fn {
		name += "@" + relName(fr.fn)
	}
	o := &Obligation{Func: fname, Name: fname + "#" + name, Kind: kind, Tags: tags, Desc: desc, Goal: goal, ctx: m.ctx, Inputs: m.inputs}
	if len(st.reads) > 0 {
		// bytes delivered by the reader on this path (for replay)
		o.Inputs = append([]namedTerm{}, m.inputs...)
		for j, r := range st.reads {
			o.Inputs = append(o.Inputs, namedTerm{fmt.Sprintf("$stream[%d].len", j), r.n})
			for i := 0; i < 8; i++ {
				o.Inputs = append(o.Inputs, namedTerm{fmt.Sprintf("$stream[%d][%d]", j, i), m.ctx.Select(r.k, m.idxAdd(r.off, m.ts.IdxConst(int64(i))))})
			}
		}
	}
	o.PC = append([]*Term{}, st.pc...)
	o.origins = m.origins
	o.DefDeps = st.defDeps
	if trivial {
		o.Status = "unsat"
		o.Solver = "simplifier"
	}
	var ids []string
	for _, p := range o.PC {
		ids = append(ids, fmt.Sprint(p.id))
	}
	o.Hash = fmt.Sprintf("%s|%d|%s", o.Name, goal.id, strings.Join(ids, ","))
	if m.oblSeen[o.Hash] {
		return
	}
	m.oblSeen[o.Hash] = true
	o.Trail = strings.Join(st.trail, " ; ")
	m.obls = append(m.obls, o)
}

func (m *Machine) safeTags() []string {
	if m.fc != nil && len(m.fc.SafeTags) > 0 {
		return m.fc.SafeTags
	}
	if m.fc != nil {
		return m.fc.Props
	}
	return nil
}

// ---------- constants ----------

func (m *Machine) constValue(st *State, c *ssa.Const) Value {
	t := c.Type()
	if c.Value == nil {
		// zero value / nil
		if isSeqType(t) {
			return m.ts.Zero(t)
		}
		if _, ok := t.Underlying().(*types.Pointer); ok {
			return m.ts.PtrTo(t.Underlying().(*types.Pointer).Elem(), m.ctx.Int(0))
		}
		return m.ts.Zero(t)
	}
	switch u := t.Underlying().(type) {
	case *types.Basic:
		switch {
		case u.Info()&types.IsBoolean != 0:
			return m.ctx.Bool(constant.BoolVal(c.Value))
		case u.Info()&types.IsInteger != 0:
			w, _, _ := basicWidth(u)
			v, ok := constant.Val(constant.ToInt(c.Value)).(*big.Int)
			if !ok {
				i64, _ := constant.Int64Val(constant.ToInt(c.Value))
				v = big.NewInt(i64)
			}
			return m.ts.NumConst(v, m.ts.intSort(w))
		case u.Info()&types.IsString != 0:
			return m.strConst(constant.StringVal(c.Value))
		}
	}
	panic(unsupported("constant of type " + t.String()))
}

func (m *Machine) strConst(s string) *Str {
	arr := m.ctx.ConstArr(ArrSort(m.ts.Idx(), m.ts.ByteSort()), m.ts.zeroOf(m.ts.ByteSort()))
	for i := 0; i < len(s); i++ {
		arr = m.ctx.Store(arr, m.ts.IdxConst(int64(i)), m.ts.NumConst(big.NewInt(int64(s[i])), m.ts.ByteSort()))
	}
	return &Str{Len: m.ts.IdxConst(int64(len(s))), Arr: arr}
}

// ---------- value lookup ----------

func (m *Machine) val(st *State, fr *Frame, v ssa.Value) Value {
	switch x := v.(type) {
	case *ssa.Const:
		return m.constValue(st, x)
	case *ssa.Function:
		return m.fnRef(x)
	case *ssa.Global:
		return m.globalPtr(x)
	case *ssa.FreeVar:
		for i, fv := range fr.fn.FreeVars {
			if fv == x {
				return fr.fvals[i]
			}
		}
		panic("free variable not bound: " + x.Name())
	case *ssa.Builtin:
		panic(unsupported("builtin as value: " + x.Name()))
	}
	if r, ok := fr.env[v]; ok {
		return r
	}
	panic(fmt.Sprintf("value %s (%T) not defined in %s", v.Name(), v, fr.fn.Name()))
}

// canon: go/ssa creates one bound-method wrapper per use site; they are the same function to us.
func (m *Machine) canon(f *ssa.Function) *ssa.Function {
	if f.Synthetic == "" {
		return f
	}
	if m.synth == nil {
		m.synth = map[string]*ssa.Function{}
	}
	if g, ok := m.synth[f.String()]; ok {
		return g
	}
	m.synth[f.String()] = f
	return f
}

func (m *Machine) fnRef(f *ssa.Function) *Term {
	f = m.canon(f)
	if c, ok := m.fnCodes[f]; ok {
		return m.ctx.IntBig(new(big.Int).Add(fnBase, big.NewInt(c)))
	}
	c := int64(len(m.fnCodes) + 1)
	m.fnCodes[f] = c
	m.fnOf[c] = f
	return m.ctx.IntBig(new(big.Int).Add(fnBase, big.NewInt(c)))
}

func (m *Machine) fnCode(f *ssa.Function) *Term {
	f = m.canon(f)
	m.fnRef(f)
	return m.ctx.Int(m.fnCodes[f])
}

func (m *Machine) globalPtr(g *ssa.Global) *Ptr {
	c, ok := m.globals[g]
	if !ok {
		c = int64(len(m.globals) + 1)
		m.globals[g] = c
	}
	elem := g.Type().(*types.Pointer).Elem()
	r := m.ctx.IntBig(new(big.Int).Add(globalBase, big.NewInt(c)))
	r.rc = rcOld
	name := g.Name()
	if g.Pkg != nil && g.Pkg.Pkg != m.ts.pkg {
		name = g.Pkg.Pkg.Name() + "." + name
	}
	return &Ptr{Mem: "global<" + name + ">", Ref: r, Elem: elem}
}

func (m *Machine) typeCode(t types.Type) int64 {
	k := types.TypeString(t, nil)
	if c, ok := m.typeCodes[k]; ok {
		return c
	}
	c := int64(len(m.typeCodes) + 1)
	m.typeCodes[k] = c
	m.typeOf[c] = t
	return c
}

// ---------- the interpreter ----------

type pathEnd struct{}

func (m *Machine) pushFrame(st *State, fn *ssa.Function, args []Value, fvals []Value, callVal ssa.Value, kind int) *Frame {
	if fn.Blocks == nil {
		panic(unsupported("call of function without body: " + fn.String()))
	}
	depth := 0
	if len(st.frames) > 0 {
		depth = st.top().depth + 1
	}
	if depth > 40 {
		panic(unsupported("call depth exceeded at " + fn.String()))
	}
	fr := &Frame{fn: fn, env: map[ssa.Value]Value{}, block: fn.Blocks[0], callVal: callVal, kind: kind, loopHit: map[int]int{}, cuts: map[int]*loopCut{}, fvals: fvals, depth: depth}
	for i, p := range fn.Params {
		fr.env[p] = args[i]
	}
	st.frames = append(st.frames, fr)
	return fr
}

// run executes st until it finishes; forks are pushed to m.work.
func (m *Machine) run(st *State) {
	for !st.dead && !st.done {
		fr := st.top()
		if fr.ip >= len(fr.block.Instrs) {
			panic("fell off block")
		}
		ins := fr.block.Instrs[fr.ip]
		st.steps++
		if st.steps > 200000 {
			m.problem("step budget exceeded in %s", relName(fr.fn))
			st.dead = true
			return
		}
		m.exec(st, fr, ins)
	}
}

func (m *Machine) gotoBlock(st *State, fr *Frame, target *ssa.BasicBlock) {
	from := fr.block
	if len(fr.cuts) > 0 {
		m.loopExits(st, fr, from, target)
	}
	// loop handling
	li := m.loopInfoOf(fr.fn)
	if ord, ok := li.ord[target]; ok {
		if !m.enterLoopHeader(st, fr, from, target, ord, li) {
			return
		}
	}
	m.enterBlock(st, fr, from, target)
}

func (m *Machine) enterBlock(st *State, fr *Frame, from, target *ssa.BasicBlock) {
	// evaluate phis in parallel
	idx := -1
	for i, p := range target.Preds {
		if p == from {
			idx = i
			break
		}
	}
	var phis []*ssa.Phi
	var vals []Value
	for _, ins := range target.Instrs {
		phi, ok := ins.(*ssa.Phi)
		if !ok {
			break
		}
		phis = append(phis, phi)
		vals = append(vals, m.val(st, fr, phi.Edges[idx]))
	}
	for i, phi := range phis {
		fr.env[phi] = vals[i]
	}
	fr.prev = from
	fr.block = target
	fr.ip = len(phis)
}

func (m *Machine) loopInfoOf(fn *ssa.Function) *loopInfo {
	li := m.loops[fn]
	if li == nil {
		li = computeLoops(fn)
		m.loops[fn] = li
	}
	return li
}

func (m *Machine) exec(st *State, fr *Frame, ins ssa.Instruction) {
	m.lastFn, m.lastIns = fr.fn, ins
	next := func() { fr.ip++ }
	switch x := ins.(type) {
	case *ssa.DebugRef:
		next()
	case *ssa.Alloc:
		elem := x.Type().(*types.Pointer).Elem()
		fr.env[x] = m.Alloc(st, elem, x.Comment)
		next()
	case *ssa.Phi:
		panic("phi in instruction stream")
	case *ssa.BinOp:
		fr.env[x] = m.binop(st, fr, x, x.Op, m.val(st, fr, x.X), m.val(st, fr, x.Y), x.X.Type(), x.Y.Type())
		next()
	case *ssa.UnOp:
		m.unop(st, fr, x)
	case *ssa.ChangeType:
		fr.env[x] = m.changeType(m.val(st, fr, x.X), x.Type())
		next()
	case *ssa.ChangeInterface:
		fr.env[x] = m.val(st, fr, x.X)
		next()
	case *ssa.Convert:
		fr.env[x] = m.convert(st, fr, x, m.val(st, fr, x.X), x.X.Type(), x.Type())
		next()
	case *ssa.MakeInterface:
		fr.env[x] = m.makeIface(st, x.X.Type(), m.val(st, fr, x.X))
		next()
	case *ssa.TypeAssert:
		m.typeAssert(st, fr, x)
		next()
	case *ssa.Extract:
		t := m.val(st, fr, x.Tuple).(*Tuple)
		fr.env[x] = t.Elems[x.Index]
		next()
	case *ssa.FieldAddr:
		p := m.val(st, fr, x.X).(*Ptr)
		m.nilCheck(st, fr, x, p, "field")
		stt := p.Elem.Underlying().(*types.Struct)
		f := stt.Field(x.Field)
		fr.env[x] = &Ptr{Mem: p.Mem, Ref: p.Ref, Idx: p.Idx, Path: joinPath(p.Path, f.Name()), Elem: f.Type()}
		next()
	case *ssa.Field:
		tv := m.val(st, fr, x.X).(*Tuple)
		fr.env[x] = tv.Elems[x.Field]
		next()
	case *ssa.IndexAddr:
		m.indexAddr(st, fr, x)
		next()
	case *ssa.Index:
		m.index(st, fr, x)
		next()
	case *ssa.Slice:
		m.sliceOp(st, fr, x)
		next()
	case *ssa.Store:
		p := m.val(st, fr, x.Addr).(*Ptr)
		m.nilCheck(st, fr, x, p, "store")
		m.guardAccess(st, fr, x, p, true)
		if !m.isGhostFn(fr.fn) {
			m.frameCheck(st, fr, x, p, "store")
		}
		sv := m.val(st, fr, x.Val)
		if !st.pure && p.Idx == nil && p.Ref != nil && !m.isGhostFn(fr.fn) && !m.isLocalRef(st, p.Ref) && m.isLockGuardedField(p) {
			// stores to lock-guarded fields of shared objects are events ("store:T.f"), so that contracts can order them
			m.addEvent(st, "store:"+p.Mem+"."+p.Path, []Value{&Ptr{Mem: p.Mem, Ref: p.Ref, Elem: p.Elem}, sv}, nil)
		}
		m.Store(st, p, sv)
		next()
	case *ssa.MakeSlice:
		m.makeSlice(st, fr, x)
		next()
	case *ssa.MakeMap:
		fr.env[x] = m.makeMap(st, x.Type())
		next()
	case *ssa.MakeChan:
		chv := m.makeChan(st, x.Type())
		if sz, ok := m.val(st, fr, x.Size).(*Term); ok && sz.sort == IntSort {
			st.assume(m.ctx.Eq(m.ctx.App("chanCapOf", IntSort, chv), sz))
		} else if ok {
			// bit-vector mode: only constant sizes are recorded
			if c, isC := x.Size.(*ssa.Const); isC && c.Value != nil {
				st.assume(m.ctx.Eq(m.ctx.App("chanCapOf", IntSort, chv), m.ctx.Int(c.Int64())))
			}
		}
		fr.env[x] = chv
		next()
	case *ssa.MakeClosure:
		fr.env[x] = m.makeClosure(st, fr, x)
		next()
	case *ssa.MapUpdate:
		m.mapUpdate(st, fr, x)
		next()
	case *ssa.Lookup:
		m.lookup(st, fr, x)
		next()
	case *ssa.If:
		c := m.val(st, fr, x.Cond).(*Term)
		switch {
		case c.IsTrue():
			m.gotoBlock(st, fr, fr.block.Succs[0])
		case c.IsFalse():
			m.gotoBlock(st, fr, fr.block.Succs[1])
		default:
			st2 := st.clone()
			st2.assumeBranch(m.ctx.Not(c))
			fr2 := st2.top()
			m.trace(st2, fmt.Sprintf("b%d:else", fr.block.Index))
			m.gotoBlock(st2, fr2, fr2.block.Succs[1])
			m.pushWork(st2)
			st.assumeBranch(c)
			m.trace(st, fmt.Sprintf("b%d:then", fr.block.Index))
			m.gotoBlock(st, fr, fr.block.Succs[0])
		}
	case *ssa.Jump:
		m.gotoBlock(st, fr, fr.block.Succs[0])
	case *ssa.Return:
		var rets []Value
		for _, r := range x.Results {
			rets = append(rets, m.val(st, fr, r))
		}
		m.doReturn(st, fr, rets)
	case *ssa.Panic:
		if st.pure || m.reject != nil {
			st.dead = true
			return
		}
		m.oblige(st, fr, "safe.panic", fmt.Sprint(m.ordinal(fr.fn, x, "panic")), m.ctx.F, m.safeTags(), "explicit panic must be unreachable")
		st.dead = true
	case *ssa.Call:
		m.call(st, fr, x, &x.Call, x)
	case *ssa.Defer:
		d := &deferred{call: &x.Call, pos: x}
		for _, a := range x.Call.Args {
			d.args = append(d.args, m.val(st, fr, a))
		}
		if !x.Call.IsInvoke() {
			if _, isB := x.Call.Value.(*ssa.Builtin); !isB {
				d.fn = m.val(st, fr, x.Call.Value)
			}
		} else {
			d.fn = m.val(st, fr, x.Call.Value)
		}
		fr.defers = append(fr.defers, d)
		next()
	case *ssa.RunDefers:
		if len(fr.defers) == 0 {
			next()
			return
		}
		d := fr.defers[len(fr.defers)-1]
		fr.defers = fr.defers[:len(fr.defers)-1]
		m.callDeferred(st, fr, d)
	case *ssa.Go:
		m.goStmt(st, fr, x)
		next()
	case *ssa.Select:
		m.selectStmt(st, fr, x)
	case *ssa.Send:
		m.sendStmt(st, fr, x)
		next()
	default:
		panic(unsupported(fmt.Sprintf("instruction %T in %s", ins, relName(fr.fn))))
	}
}

func (m *Machine) pushWork(st *State) {
	if st.dead {
		return
	}
	m.work = append(m.work, st)
}

func (m *Machine) changeType(v Value, t types.Type) Value {
	switch x := v.(type) {
	case *Slice:
		if s, ok := t.Underlying().(*types.Slice); ok {
			return &Slice{x.Arr, x.Off, x.Len, x.Cap, s.Elem()}
		}
	case *Ptr:
		if p, ok := t.Underlying().(*types.Pointer); ok {
			n := *x
			n.Elem = p.Elem()
			if x.Idx == nil && x.Path == "" {
				n.Mem = m.ts.MemFor(p.Elem())
			}
			return &n
		}
	}
	return v
}

func (m *Machine) nilCheck(st *State, fr *Frame, ins ssa.Instruction, p *Ptr, what string) {
	if st.pure {
		return // ghost code is total: reads through nil yield unconstrained values
	}
	if p.Ref.IsNum() {
		if p.Ref.num.Sign() == 0 {
			m.oblige(st, fr, "safe.nil", fmt.Sprintf("%s.%d", what, m.ordinal(fr.fn, ins, "")), m.ctx.F, m.safeTags(), "nil pointer dereference")
			st.dead = true
		}
		return
	}
	m.oblige(st, fr, "safe.nil", fmt.Sprintf("%s.%d", what, m.ordinal(fr.fn, ins, "")), m.ctx.Neq(p.Ref, m.ctx.Int(0)), m.safeTags(), "nil pointer dereference")
}

// ---------- integer arithmetic in both modes ----------

func (m *Machine) isSigned(t types.Type) (int, bool) {
	b, ok := t.Underlying().(*types.Basic)
	if !ok {
		return 0, false
	}
	w, s, _ := basicWidth(b)
	return w, s
}

func (m *Machine) inRange(t types.Type, x *Term) *Term {
	w, signed := m.isSigned(t)
	lo, hi := intRange(w, signed)
	return m.ctx.And(m.ctx.ILe(m.ctx.IntBig(lo), x), m.ctx.ILe(x, m.ctx.IntBig(hi)))
}

func isPow2Minus1(v *big.Int) (int, bool) {
	if v.Sign() <= 0 {
		return 0, false
	}
	x := new(big.Int).Add(v, big.NewInt(1))
	if x.BitLen()-1 >= 0 && new(big.Int).Lsh(big.NewInt(1), uint(x.BitLen()-1)).Cmp(x) == 0 {
		return x.BitLen() - 1, true
	}
	return 0, false
}

func (m *Machine) binop(st *State, fr *Frame, ins ssa.Instruction, op token.Token, a, b Value, ta, tb types.Type) Value {
	c := m.ctx
	switch op {
	case token.EQL:
		return m.valEq(st, ta, a, b)
	case token.NEQ:
		return c.Not(m.valEq(st, ta, a, b))
	}
	// strings: concatenation and ordering
	if sa, ok := a.(*Str); ok {
		sb := b.(*Str)
		switch op {
		case token.ADD:
			return m.strConcat(sa, sb)
		}
		panic(unsupported("string operator " + op.String()))
	}
	x, okx := a.(*Term)
	y, oky := b.(*Term)
	if !okx || !oky {
		panic(unsupported(fmt.Sprintf("binop %s on %T,%T", op, a, b)))
	}
	if x.sort == BoolSort {
		switch op {
		case token.AND, token.LAND:
			return c.And(x, y)
		case token.OR, token.LOR:
			return c.Or(x, y)
		}
		panic(unsupported("bool binop " + op.String()))
	}
	w, signed := m.isSigned(ta)
	ord := 0
	if ins != nil {
		ord = m.ordinal(fr.fn, ins, "")
	}
	if m.mode == ModeBV {
		switch op {
		case token.ADD:
			return c.BVBin("bvadd", x, y)
		case token.SUB:
			return c.BVBin("bvsub", x, y)
		case token.MUL:
			return c.BVBin("bvmul", x, y)
		case token.QUO, token.REM:
			m.oblige(st, fr, "safe.divzero", fmt.Sprint(ord), c.Neq(y, c.BV(0, w)), m.safeTags(), "division by zero")
			o := map[bool]map[token.Token]string{true: {token.QUO: "bvsdiv", token.REM: "bvsrem"}, false: {token.QUO: "bvudiv", token.REM: "bvurem"}}[signed][op]
			return c.BVBin(o, x, y)
		case token.AND:
			return c.BVBin("bvand", x, y)
		case token.OR:
			return c.BVBin("bvor", x, y)
		case token.XOR:
			return c.BVBin("bvxor", x, y)
		case token.AND_NOT:
			return c.BVBin("bvand", x, c.BVNot(y))
		case token.SHL, token.SHR:
			wy, sy := m.isSigned(tb)
			if sy {
				m.oblige(st, fr, "safe.shift", fmt.Sprint(ord), c.BVCmp("bvsle", c.BV(0, wy), y), m.safeTags(), "negative shift count")
			}
			var amt *Term
			switch {
			case wy == w:
				amt = y
			case wy < w:
				amt = c.ZExt(y, w)
			default:
				big_ := c.BVCmp("bvule", c.BV(int64(w), wy), y)
				amt = c.Ite(big_, c.BV(int64(w), w), c.Extract(w-1, 0, y))
			}
			if op == token.SHL {
				return c.BVBin("bvshl", x, amt)
			}
			if signed {
				return c.BVBin("bvashr", x, amt)
			}
			return c.BVBin("bvlshr", x, amt)
		case token.LSS:
			if signed {
				return c.BVCmp("bvslt", x, y)
			}
			return c.BVCmp("bvult", x, y)
		case token.LEQ:
			if signed {
				return c.BVCmp("bvsle", x, y)
			}
			return c.BVCmp("bvule", x, y)
		case token.GTR:
			if signed {
				return c.BVCmp("bvslt", y, x)
			}
			return c.BVCmp("bvult", y, x)
		case token.GEQ:
			if signed {
				return c.BVCmp("bvsle", y, x)
			}
			return c.BVCmp("bvule", y, x)
		}
		panic(unsupported("bv binop " + op.String()))
	}
	// int mode: mathematical integers; signed overflow is an obligation, unsigned arithmetic wraps
	wrap := func(r *Term) *Term {
		if signed && ((m.fc != nil && m.fc.OvfWrap) || isStatsCounter(ins)) {
			mod := new(big.Int).Lsh(big.NewInt(1), uint(w))
			half := new(big.Int).Rsh(mod, 1)
			return c.ISub(c.IMod(c.IAdd(r, c.IntBig(half)), c.IntBig(mod)), c.IntBig(half))
		}
		if signed {
			m.oblige(st, fr, "ovf."+op.String(), fmt.Sprint(ord), m.inRange(ta, r), m.safeTags(), "arithmetic stays within "+ta.String())
			return r
		}
		if r.IsNum() {
			return c.IMod(r, c.IntBig(new(big.Int).Lsh(big.NewInt(1), uint(w))))
		}
		return m.wrapUnsigned(st, r, w)
	}
	switch op {
	case token.ADD:
		return wrap(c.IAdd(x, y))
	case token.SUB:
		return wrap(c.ISub(x, y))
	case token.MUL:
		return wrap(c.IMul(x, y))
	case token.QUO, token.REM:
		m.oblige(st, fr, "safe.divzero", fmt.Sprint(ord), c.Neq(y, c.Int(0)), m.safeTags(), "division by zero")
		q := m.truncDiv(x, y)
		if op == token.QUO {
			return q
		}
		return c.ISub(x, c.IMul(y, q))
	case token.SHL:
		if y.IsNum() && y.num.IsInt64() && y.num.Int64() < 63 {
			return wrap(c.IMul(x, c.IntBig(new(big.Int).Lsh(big.NewInt(1), uint(y.num.Int64())))))
		}
	case token.SHR:
		if y.IsNum() && y.num.IsInt64() && y.num.Int64() < 63 {
			return c.IDiv(x, c.IntBig(new(big.Int).Lsh(big.NewInt(1), uint(y.num.Int64()))))
		}
	case token.AND:
		if y.IsNum() && y.num.Sign() >= 0 {
			return m.andConst(x, y.num)
		}
		if x.IsNum() && x.num.Sign() >= 0 {
			return m.andConst(y, x.num)
		}
	case token.OR:
		if y.IsNum() && y.num.Sign() >= 0 {
			return c.ISub(c.IAdd(x, y), m.andConst(x, y.num))
		}
		if x.IsNum() && x.num.Sign() >= 0 {
			return c.ISub(c.IAdd(x, y), m.andConst(y, x.num))
		}
		return m.orVar(st, x, y)
	case token.XOR:
		if y.IsNum() && y.num.Sign() >= 0 {
			return c.ISub(c.IAdd(x, y), c.IMul(c.Int(2), m.andConst(x, y.num)))
		}
	case token.AND_NOT:
		if y.IsNum() && y.num.Sign() >= 0 {
			return c.ISub(x, m.andConst(x, y.num))
		}
	case token.LSS:
		return c.ILt(x, y)
	case token.LEQ:
		return c.ILe(x, y)
	case token.GTR:
		return c.ILt(y, x)
	case token.GEQ:
		return c.ILe(y, x)
	}
	panic(unsupported("operator " + op.String() + " with these operands in int mode (use mode bv for general bit manipulation)"))
}

// wrapUnsigned reduces r modulo 2^w (Go's defined wrap-around for unsigned types).
func (m *Machine) wrapUnsigned(st *State, r *Term, w int) *Term {
	return m.ctx.IMod(r, m.ctx.IntBig(new(big.Int).Lsh(big.NewInt(1), uint(w))))
}

// andConst encodes x & mask for a non-negative constant mask with div/mod:
// every maximal run of one-bits [lo,hi) contributes ((x div 2^lo) mod 2^(hi-lo)) * 2^lo.
func (m *Machine) andConst(x *Term, mask *big.Int) *Term {
	c := m.ctx
	if x.IsNum() && x.num.Sign() >= 0 {
		return c.IntBig(new(big.Int).And(x.num, mask))
	}
	res := c.Int(0)
	n := mask.BitLen()
	for lo := 0; lo < n; {
		if mask.Bit(lo) == 0 {
			lo++
			continue
		}
		hi := lo
		for hi < n && mask.Bit(hi) == 1 {
			hi++
		}
		p := func(k int) *Term { return c.IntBig(new(big.Int).Lsh(big.NewInt(1), uint(k))) }
		part := c.IMod(c.IDiv(x, p(lo)), p(hi-lo))
		res = c.IAdd(res, c.IMul(part, p(lo)))
		lo = hi
	}
	return res
}

// pow2Factor: largest k such that t is syntactically a multiple of 2^k.
func pow2Factor(t *Term) int {
	switch t.op {
	case "*":
		for _, a := range t.args {
			if a.IsNum() && a.num.Sign() > 0 {
				k := 0
				for a.num.Bit(k) == 0 {
					k++
				}
				return k
			}
		}
	case "mod":
		if t.args[1].IsNum() {
			k := pow2Factor(t.args[0])
			mk := 0
			for t.args[1].num.Bit(mk) == 0 {
				mk++
			}
			if mk < k {
				return mk
			}
			return k
		}
	}
	return 0
}

// orVar: a | b for two symbolic operands. Supported when one operand is syntactically a
// multiple of 2^k (a shift) and the other is proved to lie in [0, 2^k): then a|b = a+b.
func (m *Machine) orVar(st *State, a, b *Term) *Term {
	c := m.ctx
	k := pow2Factor(a)
	if kb := pow2Factor(b); kb > k {
		a, b = b, a
		k = kb
	}
	if k == 0 {
		panic(unsupported("bitwise or of two symbolic operands in int mode"))
	}
	p := c.IntBig(new(big.Int).Lsh(big.NewInt(1), uint(k)))
	r := c.App("bor", IntSort, a, b)
	m.assumeOnce(st, c.Implies(c.And(c.Eq(c.IMod(a, p), c.Int(0)), c.ILe(c.Int(0), b), c.ILt(b, p)), c.Eq(r, c.IAdd(a, b))))
	return r
}

func (m *Machine) truncDiv(x, y *Term) *Term {
	c := m.ctx
	z := c.Int(0)
	neg := func(t *Term) *Term { return c.ISub(z, t) }
	return c.Ite(c.ILe(z, x),
		c.Ite(c.ILt(z, y), c.IDiv(x, y), neg(c.IDiv(x, neg(y)))),
		c.Ite(c.ILt(z, y), neg(c.IDiv(neg(x), y)), c.IDiv(neg(x), neg(y))))
}

func (m *Machine) valEq(st *State, t types.Type, a, b Value) *Term {
	c := m.ctx
	switch x := a.(type) {
	case *Term:
		return c.Eq(x, b.(*Term))
	case *Ptr:
		y := b.(*Ptr)
		return m.ptrEq(x, y)
	case *Str:
		y := b.(*Str)
		m.needCanon(st, x)
		m.needCanon(st, y)
		return c.And(c.Eq(x.Len, y.Len), c.Eq(x.Arr, y.Arr))
	case *Iface:
		y := b.(*Iface)
		return c.And(c.Eq(x.Tag, y.Tag), c.Eq(x.Val, y.Val))
	case *Slice:
		// only comparison with nil is legal Go
		y := b.(*Slice)
		if y.Arr.IsNum() && y.Arr.num.Sign() == 0 {
			return c.Eq(x.Arr, c.Int(0))
		}
		if x.Arr.IsNum() && x.Arr.num.Sign() == 0 {
			return c.Eq(y.Arr, c.Int(0))
		}
		panic(unsupported("slice comparison"))
	case *Tuple:
		y := b.(*Tuple)
		var conj []*Term
		stt := t.Underlying().(*types.Struct)
		for i := range x.Elems {
			conj = append(conj, m.valEq(st, stt.Field(i).Type(), x.Elems[i], y.Elems[i]))
		}
		return c.And(conj...)
	}
	panic(unsupported(fmt.Sprintf("equality on %T", a)))
}

func (m *Machine) ptrEq(x, y *Ptr) *Term {
	c := m.ctx
	if x.Idx == nil && y.Idx == nil && x.Path == y.Path {
		return c.Eq(x.Ref, y.Ref)
	}
	if (x.Opaque || y.Opaque) && (x.Path != y.Path || (x.Idx == nil) != (y.Idx == nil)) {
		return c.App("opaquePtrEq", BoolSort, x.Ref, y.Ref)
	}
	if x.Path != y.Path || (x.Idx == nil) != (y.Idx == nil) {
		// different interior locations: equal only if both nil (interior pointers are never nil)
		return c.F
	}
	return c.And(c.Eq(x.Ref, y.Ref), c.Eq(x.Idx, y.Idx))
}

// needCanon records that string s takes part in an equality: its content array is
// canonical (zero outside [0,len)), which is an invariant of the representation.
func (m *Machine) needCanon(st *State, s *Str) {
	if s.Arr.op != "var" && s.Arr.op != "select" {
		return
	}
	if s.Arr.op == "select" {
		// content arrays read out of memory: canonical by the representation invariant of strings
		if a := s.Arr.args[0]; a.op == "lambda" {
			return
		}
	}
	i := m.ctx.Bound("ci", m.ts.Idx())
	z := m.ts.IdxConst(0)
	body := m.ctx.Implies(m.ctx.Or(m.idxLt(i, z), m.idxLe(s.Len, i)), m.ctx.Eq(m.ctx.Select(s.Arr, i), m.ts.zeroOf(m.ts.ByteSort())))
	m.assumeOnce(st, m.ctx.Forall([]*Term{i}, body))
}

func (m *Machine) strConcat(a, b *Str) *Str {
	c := m.ctx
	i := c.Bound("si", m.ts.Idx())
	body := c.Ite(m.idxLt(i, a.Len), c.Select(a.Arr, i), c.Select(b.Arr, m.idxSub(i, a.Len)))
	return &Str{Len: m.idxAdd(a.Len, b.Len), Arr: c.Lambda(i, body)}
}

func (m *Machine) unop(st *State, fr *Frame, x *ssa.UnOp) {
	c := m.ctx
	switch x.Op {
	case token.MUL:
		p := m.val(st, fr, x.X).(*Ptr)
		m.nilCheck(st, fr, x, p, "deref")
		m.guardAccess(st, fr, x, p, false)
		fr.env[x] = m.loadPtr(st, fr, p)
		fr.ip++
	case token.NOT:
		fr.env[x] = c.Not(m.val(st, fr, x.X).(*Term))
		fr.ip++
	case token.SUB:
		v := m.val(st, fr, x.X).(*Term)
		if m.mode == ModeBV {
			fr.env[x] = c.BVNeg(v)
		} else {
			r := c.ISub(c.Int(0), v)
			m.oblige(st, fr, "ovf.neg", fmt.Sprint(m.ordinal(fr.fn, x, "")), m.inRange(x.Type(), r), m.safeTags(), "negation overflow")
			fr.env[x] = r
		}
		fr.ip++
	case token.XOR:
		v := m.val(st, fr, x.X).(*Term)
		if m.mode == ModeBV {
			fr.env[x] = c.BVNot(v)
		} else {
			panic(unsupported("bitwise complement in int mode"))
		}
		fr.ip++
	case token.ARROW:
		m.recvOp(st, fr, x)
	default:
		panic(unsupported("unop " + x.Op.String()))
	}
}

func (m *Machine) loadPtr(st *State, fr *Frame, p *Ptr) Value {
	if strings.HasPrefix(p.Mem, "global<") {
		if v, ok := m.loadGlobal(st, p); ok {
			return v
		}
	}
	return m.Load(st, p)
}

// ---------- conversions ----------

func (m *Machine) convert(st *State, fr *Frame, ins ssa.Instruction, v Value, from, to types.Type) Value {
	c := m.ctx
	fu, tu := from.Underlying(), to.Underlying()
	fb, fok := fu.(*types.Basic)
	tb, tok := tu.(*types.Basic)
	if fok && tok && fb.Info()&types.IsInteger != 0 && tb.Info()&types.IsInteger != 0 {
		x := v.(*Term)
		fw, fs, _ := basicWidth(fb)
		tw, tsg, _ := basicWidth(tb)
		if m.mode == ModeBV {
			switch {
			case tw == fw:
				return x
			case tw < fw:
				return c.Extract(tw-1, 0, x)
			case fs:
				return c.SExt(x, tw)
			default:
				return c.ZExt(x, tw)
			}
		}
		flo, fhi := intRange(fw, fs)
		tlo, thi := intRange(tw, tsg)
		if tlo.Cmp(flo) <= 0 && fhi.Cmp(thi) <= 0 {
			return x
		}
		mod := new(big.Int).Lsh(big.NewInt(1), uint(tw))
		if !tsg {
			return c.IMod(x, c.IntBig(mod))
		}
		half := new(big.Int).Rsh(mod, 1)
		return c.ISub(c.IMod(c.IAdd(x, c.IntBig(half)), c.IntBig(mod)), c.IntBig(half))
	}
	// string <-> []byte
	if fok && fb.Info()&types.IsString != 0 {
		if sl, ok := tu.(*types.Slice); ok {
			s := v.(*Str)
			eb, isB := sl.Elem().Underlying().(*types.Basic)
			if isB && eb.Kind() == types.Uint8 {
				ref := m.AllocArray(st, sl.Elem(), map[string]*Term{"": s.Arr}, "[]byte(string)")
				capv := s.Len
				return &Slice{Arr: ref, Off: m.ts.IdxConst(0), Len: s.Len, Cap: capv, Elem: sl.Elem()}
			}
			if isB && eb.Kind() == types.Int32 {
				return m.stringToRunes(st, s, sl.Elem())
			}
		}
	}
	if tok && tb.Info()&types.IsString != 0 {
		if sl, ok := fu.(*types.Slice); ok {
			s := v.(*Slice)
			eb, isB := sl.Elem().Underlying().(*types.Basic)
			if isB && eb.Kind() == types.Uint8 {
				return m.bytesToString(st, s)
			}
			if isB && eb.Kind() == types.Int32 {
				return m.runesToString(st, s)
			}
		}
		if fok && fb.Info()&types.IsString != 0 {
			return v
		}
	}
	if fok && tok && fb.Info()&types.IsString != 0 && tb.Info()&types.IsString != 0 {
		return v
	}
	// pointer <-> unsafe.Pointer etc. not needed
	panic(unsupported(fmt.Sprintf("conversion %s -> %s", from, to)))
}

func (m *Machine) bytesToString(st *State, s *Slice) *Str {
	c := m.ctx
	l := m.ts.Leaves(s.Elem)[0]
	content := m.elemArr(st, s.Elem, s.Arr, l)
	i := c.Bound("bi", m.ts.Idx())
	z := m.ts.IdxConst(0)
	body := c.Ite(c.And(m.idxLe(z, i), m.idxLt(i, s.Len)), c.Select(content, m.idxAdd(s.Off, i)), m.ts.zeroOf(m.ts.ByteSort()))
	return &Str{Len: s.Len, Arr: c.Lambda(i, body)}
}

// ---------- interfaces ----------

func isRefLike(t types.Type) bool {
	switch t.Underlying().(type) {
	case *types.Pointer, *types.Map, *types.Chan, *types.Signature:
		return true
	}
	return false
}

func (m *Machine) makeIface(st *State, t types.Type, v Value) Value {
	if _, ok := t.Underlying().(*types.Interface); ok {
		return v
	}
	code := m.typeCode(t)
	tag := m.ctx.Int(code)
	if isRefLike(t) {
		switch x := v.(type) {
		case *Ptr:
			if x.Idx != nil || x.Path != "" {
				panic(unsupported("interior pointer converted to interface"))
			}
			return &Iface{tag, x.Ref}
		case *Term:
			return &Iface{tag, x}
		}
	}
	// boxed value: injective uninterpreted constructor
	leaves := m.ts.Flatten(t, v)
	name := "box<" + m.ts.typeName(t) + ">"
	allNum := true
	for _, l := range leaves {
		if !l.IsNum() && !l.IsTrue() && !l.IsFalse() {
			allNum = false
		}
	}
	_ = allNum
	payload := m.ctx.App(name, IntSort, leaves...)
	ls := m.ts.Leaves(t)
	for i, l := range ls {
		if l.sort.K == SArr {
			continue
		}
		un := m.ctx.App(fmt.Sprintf("unbox<%s>.%d", m.ts.typeName(t), i), l.sort, payload)
		m.assumeOnce(st, m.ctx.Eq(un, leaves[i]))
	}
	m.assumeOnce(st, m.ctx.ILt(m.ctx.Int(0), payload))
	return &Iface{tag, payload}
}

func (m *Machine) unbox(st *State, t types.Type, payload *Term) Value {
	if isRefLike(t) {
		if p, ok := t.Underlying().(*types.Pointer); ok {
			return m.ts.PtrTo(p.Elem(), payload)
		}
		return payload
	}
	ls := m.ts.Leaves(t)
	var terms []*Term
	for i, l := range ls {
		terms = append(terms, m.ctx.App(fmt.Sprintf("unbox<%s>.%d", m.ts.typeName(t), i), l.sort, payload))
	}
	return m.ts.Unflatten(t, &terms)
}

func (m *Machine) implements(tag *Term, it *types.Interface, name string) *Term {
	if tag.IsNum() {
		if tag.num.Sign() == 0 {
			return m.ctx.F
		}
		t := m.typeOf[tag.num.Int64()]
		return m.ctx.Bool(types.Implements(t, it))
	}
	if tag.op == "ite" {
		return m.ctx.Ite(tag.args[0], m.implements(tag.args[1], it, name), m.implements(tag.args[2], it, name))
	}
	m.implUsed[name] = it
	return m.ctx.App("impl<"+name+">", BoolSort, tag)
}

func (m *Machine) typeAssert(st *State, fr *Frame, x *ssa.TypeAssert) {
	c := m.ctx
	v := m.val(st, fr, x.X).(*Iface)
	var ok *Term
	var res Value
	if it, isI := x.AssertedType.Underlying().(*types.Interface); isI {
		ok = c.And(c.Neq(v.Tag, c.Int(0)), m.implements(v.Tag, it, m.ts.typeName(x.AssertedType)))
		res = v
		if x.CommaOk {
			// on failure the result is the nil interface
			res = &Iface{c.Ite(ok, v.Tag, c.Int(0)), c.Ite(ok, v.Val, c.Int(0))}
		}
	} else {
		code := m.typeCode(x.AssertedType)
		ok = c.Eq(v.Tag, c.Int(code))
		res = m.unbox(st, x.AssertedType, v.Val)
		if x.CommaOk {
			if p, isP := res.(*Ptr); isP {
				res = &Ptr{Mem: p.Mem, Ref: c.Ite(ok, p.Ref, c.Int(0)), Elem: p.Elem}
			}
		}
	}
	if x.CommaOk {
		fr.env[x] = &Tuple{[]Value{res, ok}}
		return
	}
	m.oblige(st, fr, "safe.typeassert", fmt.Sprint(m.ordinal(fr.fn, x, "")), ok, m.safeTags(), "type assertion cannot fail")
	fr.env[x] = res
}

// ---------- slices, arrays ----------

func (m *Machine) inBounds(i, n *Term) *Term {
	return m.ctx.And(m.idxLe(m.ts.IdxConst(0), i), m.idxLt(i, n))
}

func (m *Machine) toIdx(v Value, t types.Type) *Term {
	x := v.(*Term)
	if m.mode == ModeInt {
		return x
	}
	w, signed := m.isSigned(t)
	if w == 64 {
		return x
	}
	if signed {
		return m.ctx.SExt(x, 64)
	}
	return m.ctx.ZExt(x, 64)
}

func (m *Machine) indexAddr(st *State, fr *Frame, x *ssa.IndexAddr) {
	base := m.val(st, fr, x.X)
	i := m.toIdx(m.val(st, fr, x.Index), x.Index.Type())
	ord := fmt.Sprint(m.ordinal(fr.fn, x, ""))
	switch b := base.(type) {
	case *Slice:
		m.oblige(st, fr, "safe.index", ord, m.inBounds(i, b.Len), m.safeTags(), "index within slice length")
		fr.env[x] = &Ptr{Mem: m.ts.ElemMem(b.Elem), Ref: b.Arr, Idx: m.idxAdd(b.Off, i), Elem: b.Elem}
	case *Ptr:
		arr, ok := b.Elem.Underlying().(*types.Array)
		if !ok {
			panic(unsupported("IndexAddr on " + b.Elem.String()))
		}
		m.nilCheck(st, fr, x, b, "index")
		m.oblige(st, fr, "safe.index", ord, m.inBounds(i, m.ts.IdxConst(arr.Len())), m.safeTags(), "index within array length")
		off := i
		if b.Idx != nil {
			off = m.idxAdd(b.Idx, i)
		}
		fr.env[x] = &Ptr{Mem: b.Mem, Ref: b.Ref, Idx: off, Elem: arr.Elem()}
	default:
		panic(unsupported(fmt.Sprintf("IndexAddr on %T", base)))
	}
}

func (m *Machine) index(st *State, fr *Frame, x *ssa.Index) {
	base := m.val(st, fr, x.X)
	i := m.toIdx(m.val(st, fr, x.Index), x.Index.Type())
	ord := fmt.Sprint(m.ordinal(fr.fn, x, ""))
	switch b := base.(type) {
	case *Str:
		m.oblige(st, fr, "safe.index", ord, m.inBounds(i, b.Len), m.safeTags(), "index within string length")
		fr.env[x] = m.ctx.Select(b.Arr, i)
	default:
		panic(unsupported(fmt.Sprintf("Index on %T", base)))
	}
}

func (m *Machine) sliceOp(st *State, fr *Frame, x *ssa.Slice) {
	c := m.ctx
	base := m.val(st, fr, x.X)
	ord := fmt.Sprint(m.ordinal(fr.fn, x, ""))
	z := m.ts.IdxConst(0)
	get := func(v ssa.Value, def *Term) *Term {
		if v == nil {
			return def
		}
		return m.toIdx(m.val(st, fr, v), v.Type())
	}
	switch b := base.(type) {
	case *Slice:
		lo := get(x.Low, z)
		hi := get(x.High, b.Len)
		mx := get(x.Max, b.Cap)
		m.oblige(st, fr, "safe.slice", ord, c.And(m.idxLe(z, lo), m.idxLe(lo, hi), m.idxLe(hi, mx), m.idxLe(mx, b.Cap)), m.safeTags(), "slice bounds within capacity")
		fr.env[x] = &Slice{Arr: b.Arr, Off: m.idxAdd(b.Off, lo), Len: m.idxSub(hi, lo), Cap: m.idxSub(mx, lo), Elem: b.Elem}
	case *Ptr:
		arr, ok := b.Elem.Underlying().(*types.Array)
		if !ok {
			panic(unsupported("Slice on pointer to " + b.Elem.String()))
		}
		m.nilCheck(st, fr, x, b, "slice")
		n := m.ts.IdxConst(arr.Len())
		lo := get(x.Low, z)
		hi := get(x.High, n)
		mx := get(x.Max, n)
		m.oblige(st, fr, "safe.slice", ord, c.And(m.idxLe(z, lo), m.idxLe(lo, hi), m.idxLe(hi, mx), m.idxLe(mx, n)), m.safeTags(), "slice bounds within array")
		off := lo
		if b.Idx != nil {
			off = m.idxAdd(b.Idx, lo)
		}
		fr.env[x] = &Slice{Arr: b.Ref, Off: off, Len: m.idxSub(hi, lo), Cap: m.idxSub(mx, lo), Elem: arr.Elem()}
	case *Str:
		lo := get(x.Low, z)
		hi := get(x.High, b.Len)
		m.oblige(st, fr, "safe.slice", ord, c.And(m.idxLe(z, lo), m.idxLe(lo, hi), m.idxLe(hi, b.Len)), m.safeTags(), "substring bounds")
		i := c.Bound("ss", m.ts.Idx())
		n := m.idxSub(hi, lo)
		body := c.Ite(c.And(m.idxLe(z, i), m.idxLt(i, n)), c.Select(b.Arr, m.idxAdd(lo, i)), m.ts.zeroOf(m.ts.ByteSort()))
		fr.env[x] = &Str{Len: n, Arr: c.Lambda(i, body)}
	default:
		panic(unsupported(fmt.Sprintf("Slice on %T", base)))
	}
}

var maxPacket = big.NewInt(268435455)

func (m *Machine) makeSlice(st *State, fr *Frame, x *ssa.MakeSlice) {
	c := m.ctx
	elem := x.Type().Underlying().(*types.Slice).Elem()
	n := m.toIdx(m.val(st, fr, x.Len), x.Len.Type())
	cp := m.toIdx(m.val(st, fr, x.Cap), x.Cap.Type())
	ord := fmt.Sprint(m.ordinal(fr.fn, x, ""))
	z := m.ts.IdxConst(0)
	mx := m.ts.NumConst(maxLen, m.ts.Idx())
	m.oblige(st, fr, "safe.makeslice", ord, c.And(m.idxLe(z, n), m.idxLe(n, cp), m.idxLe(cp, mx)), m.safeTags(), "make: 0 <= len <= cap (else run-time panic)")
	ref := m.AllocArray(st, elem, nil, "make")
	st.events = append(st.events, &Event{Name: "make", Args: []Value{cp}})
	fr.env[x] = &Slice{Arr: ref, Off: z, Len: n, Cap: cp, Elem: elem}
}

// appendSlices implements append(s, t...) for slices.
func (m *Machine) appendSlices(st *State, s *Slice, tLen *Term, src func(l leaf, j *Term) *Term, elem types.Type) *Slice {
	c := m.ctx
	if tLen.IsNum() && tLen.num.Sign() == 0 {
		return s
	}
	newLen := m.idxAdd(s.Len, tLen)
	inplace := m.idxLe(newLen, s.Cap)
	fresh := m.newRef(st, elem, m.ts.ElemMem(elem), true, "append")
	var arr, off, capv *Term
	z := m.ts.IdxConst(0)
	if inplace.IsTrue() {
		arr, off, capv = s.Arr, s.Off, s.Cap
	} else {
		arr = c.Ite(inplace, s.Arr, fresh)
		off = c.Ite(inplace, s.Off, z)
		nc := c.Fresh("cap", m.ts.Idx())
		st.assume(c.And(m.idxLe(newLen, nc), m.idxLe(nc, m.ts.NumConst(maxLen, m.ts.Idx()))))
		capv = c.Ite(inplace, s.Cap, nc)
	}
	for _, l := range m.ts.Leaves(elem) {
		old := m.elemArr(st, elem, s.Arr, l)
		i := c.Bound("ai", m.ts.Idx())
		start := m.idxAdd(off, s.Len)
		inNew := c.And(m.idxLe(start, i), m.idxLt(i, m.idxAdd(start, tLen)))
		var base *Term
		if inplace.IsTrue() {
			base = c.Select(old, i)
		} else {
			base = c.Ite(inplace, c.Select(old, i), c.Select(old, m.idxAdd(s.Off, i)))
		}
		body := c.Ite(inNew, src(l, m.idxSub(i, start)), base)
		m.setElemArr(st, elem, arr, l, c.Lambda(i, body))
	}
	return &Slice{Arr: arr, Off: off, Len: newLen, Cap: capv, Elem: elem}
}

// ---------- maps ----------

func (m *Machine) mapNames(t types.Type) (string, *types.Map) {
	mt := t.Underlying().(*types.Map)
	return "map<" + m.ts.typeName(mt.Key()) + "," + m.ts.typeName(mt.Elem()) + ">", mt
}

func (m *Machine) keyTerm(mt *types.Map, k Value) *Term {
	t, ok := k.(*Term)
	if !ok {
		panic(unsupported("map key type " + mt.Key().String()))
	}
	return t
}

func (m *Machine) mapPresent(st *State, t types.Type, ref *Term) (*Term, string) {
	name, mt := m.mapNames(t)
	ks := m.ts.Leaves(mt.Key())[0].sort
	n := name + ".present"
	return m.heapGet(st, n, ArrSort(IntSort, ArrSort(ks, BoolSort))), n
}

func (m *Machine) makeMap(st *State, t types.Type) *Term {
	name, mt := m.mapNames(t)
	ks := m.ts.Leaves(mt.Key())[0].sort
	r := m.newRef(st, t, name, false, "makemap")
	pa, pn := m.mapPresent(st, t, r)
	st.heap[pn] = m.ctx.Store(pa, r, m.ctx.ConstArr(ArrSort(ks, BoolSort), m.ctx.F))
	for _, l := range m.ts.Leaves(mt.Elem()) {
		n := name + ".val." + l.path
		a := m.heapGet(st, n, ArrSort(IntSort, ArrSort(ks, l.sort)))
		st.heap[n] = m.ctx.Store(a, r, m.ctx.ConstArr(ArrSort(ks, l.sort), m.ts.zeroOf(l.sort)))
	}
	return r
}

func (m *Machine) mapUpdate(st *State, fr *Frame, x *ssa.MapUpdate) {
	c := m.ctx
	ref := m.val(st, fr, x.Map).(*Term)
	name, mt := m.mapNames(x.Map.Type())
	k := m.keyTerm(mt, m.val(st, fr, x.Key))
	v := m.val(st, fr, x.Value)
	m.oblige(st, fr, "safe.nilmap", fmt.Sprint(m.ordinal(fr.fn, x, "")), c.Neq(ref, c.Int(0)), m.safeTags(), "assignment to entry in nil map")
	m.guardMap(st, fr, x, x.Map, true)
	if !m.guardedMaps[ref.id] && !m.isGhostFn(fr.fn) {
		m.frameCheck(st, fr, x, &Ptr{Mem: name, Ref: ref, Elem: mt.Elem()}, "map update")
	}
	ks := k.sort
	pa, pn := m.mapPresent(st, x.Map.Type(), ref)
	st.heap[pn] = c.Store(pa, ref, c.Store(c.Select(pa, ref), k, c.T))
	terms := m.ts.Flatten(mt.Elem(), v)
	for i, l := range m.ts.Leaves(mt.Elem()) {
		n := name + ".val." + l.path
		a := m.heapGet(st, n, ArrSort(IntSort, ArrSort(ks, l.sort)))
		st.heap[n] = c.Store(a, ref, c.Store(c.Select(a, ref), k, terms[i]))
	}
	if !m.isLocalRef(st, ref) {
		m.escapeValue(st, mt.Elem(), v)
	}
	st.events = append(st.events, &Event{Name: "mapstore:" + name, Args: []Value{ref, k, v}})
}

func (m *Machine) mapGet(st *State, t types.Type, ref, k *Term) (Value, *Term) {
	c := m.ctx
	name, mt := m.mapNames(t)
	pa, _ := m.mapPresent(st, t, ref)
	present := c.And(c.Neq(ref, c.Int(0)), c.Select(c.Select(pa, ref), k))
	var terms []*Term
	for _, l := range m.ts.Leaves(mt.Elem()) {
		n := name + ".val." + l.path
		a := m.heapGet(st, n, ArrSort(IntSort, ArrSort(k.sort, l.sort)))
		terms = append(terms, c.Ite(present, c.Select(c.Select(a, ref), k), m.ts.zeroOf(l.sort)))
	}
	v := m.ts.Unflatten(mt.Elem(), &terms)
	m.assumeWellFormed(st, mt.Elem(), v)
	return v, present
}

func (m *Machine) lookup(st *State, fr *Frame, x *ssa.Lookup) {
	if _, ok := x.X.Type().Underlying().(*types.Map); !ok {
		// string indexing
		s := m.val(st, fr, x.X).(*Str)
		i := m.toIdx(m.val(st, fr, x.Index), x.Index.Type())
		m.oblige(st, fr, "safe.index", fmt.Sprint(m.ordinal(fr.fn, x, "")), m.inBounds(i, s.Len), m.safeTags(), "index within string length")
		fr.env[x] = m.ctx.Select(s.Arr, i)
		return
	}
	ref := m.val(st, fr, x.X).(*Term)
	_, mt := m.mapNames(x.X.Type())
	k := m.keyTerm(mt, m.val(st, fr, x.Index))
	m.guardMap(st, fr, x, x.X, false)
	v, present := m.mapGet(st, x.X.Type(), ref, k)
	if x.CommaOk {
		fr.env[x] = &Tuple{[]Value{v, present}}
	} else {
		fr.env[x] = v
	}
}

func (m *Machine) mapDelete(st *State, t types.Type, ref, k *Term) {
	c := m.ctx
	pa, pn := m.mapPresent(st, t, ref)
	// delete on nil map is a no-op
	inner := c.Select(pa, ref)
	st.heap[pn] = c.Store(pa, ref, c.Store(inner, k, c.F))
	name, _ := m.mapNames(t)
	st.events = append(st.events, &Event{Name: "mapdelete:" + name, Args: []Value{ref, k}})
}

// ---------- closures ----------

func (m *Machine) makeClosure(st *State, fr *Frame, x *ssa.MakeClosure) *Term {
	fn := x.Fn.(*ssa.Function)
	r := m.newRef(st, nil, "clo", false, "closure "+fn.Name())
	code := m.fnCode(fn)
	a := m.heapGet(st, "clo.fn", ArrSort(IntSort, IntSort))
	st.heap["clo.fn"] = m.ctx.Store(a, r, code)
	for i, b := range x.Bindings {
		v := m.val(st, fr, b)
		t := fn.FreeVars[i].Type()
		terms := m.ts.Flatten(t, v)
		for j, l := range m.ts.Leaves(t) {
			n := fmt.Sprintf("clo<%s>.%d.%s", relName(fn), i, l.path)
			arr := m.heapGet(st, n, ArrSort(IntSort, l.sort))
			st.heap[n] = m.ctx.Store(arr, r, terms[j])
		}
	}
	// remember binding values for escape analysis
	fo := m.freshObjOf(st, r)
	fo.site = "closure " + relName(fn)
	m.cloBindings(st, r, fn, x, fr)
	return r
}

// cloBindings records, for escape propagation, the references captured by closure r.
func (m *Machine) cloBindings(st *State, r *Term, fn *ssa.Function, x *ssa.MakeClosure, fr *Frame) {
	// nothing stored separately: escapeClosure re-reads the bindings from the heap
}

// closureCode returns the function behind a function value if it is syntactically known.
func (m *Machine) closureCode(st *State, f *Term) (*ssa.Function, bool) {
	if f.IsNum() && f.num.Cmp(fnBase) > 0 && f.num.Cmp(freshBase) < 0 {
		c := new(big.Int).Sub(f.num, fnBase).Int64()
		fn, ok := m.fnOf[c]
		return fn, ok
	}
	a := m.heapGet(st, "clo.fn", ArrSort(IntSort, IntSort))
	code := m.ctx.Select(a, f)
	if code.IsNum() {
		fn, ok := m.fnOf[code.num.Int64()]
		return fn, ok
	}
	if fn, ok := m.knownCode[f.id]; ok {
		return fn, true // from a requires clause closureIs(f, "...") of the function under verification
	}
	return nil, false
}

func (m *Machine) closureBindings(st *State, f *Term, fn *ssa.Function) []Value {
	var out []Value
	for i, fv := range fn.FreeVars {
		t := fv.Type()
		var terms []*Term
		for _, l := range m.ts.Leaves(t) {
			n := fmt.Sprintf("clo<%s>.%d.%s", relName(fn), i, l.path)
			arr := m.heapGet(st, n, ArrSort(IntSort, l.sort))
			terms = append(terms, m.ctx.Select(arr, f))
		}
		v := m.ts.Unflatten(t, &terms)
		out = append(out, v)
	}
	return out
}

// escapeClosure: when a closure object escapes, so do the cells it captured.
func (m *Machine) escapeClosureContents(st *State, r *Term) {
	fn, ok := m.closureCode(st, r)
	if !ok {
		return
	}
	for i, v := range m.closureBindings(st, r, fn) {
		m.escapeValue(st, fn.FreeVars[i].Type(), v)
	}
}

// ---------- return ----------

func (m *Machine) doReturn(st *State, fr *Frame, rets []Value) {
	if len(st.frames) == 1 {
		if st.pure {
			st.rets = rets
			st.done = true
			return
		}
		m.topReturn(st, fr, rets)
		st.done = true
		return
	}
	st.frames = st.frames[:len(st.frames)-1]
	parent := st.top()
	switch fr.kind {
	case 1:
		// deferred call finished: stay on the RunDefers instruction
		return
	}
	if fr.callVal != nil {
		sig := fr.fn.Signature
		switch sig.Results().Len() {
		case 0:
			parent.env[fr.callVal] = nil
		case 1:
			parent.env[fr.callVal] = rets[0]
		default:
			parent.env[fr.callVal] = &Tuple{rets}
		}
	}
	parent.ip++
}

func sortedInts(m map[int]bool) []int {
	var out []int
	for k := range m {
		out = append(out, k)
	}
	sort.Ints(out)
	return out
}

// isStatsCounter: the arithmetic result is stored straight into a field of a *Stats struct
// (BaseStats, RetryStats). Such counters wrap like any Go int; no overflow obligation is raised.
func isStatsCounter(ins ssa.Instruction) bool {
	b, ok := ins.(*ssa.BinOp)
	if !ok || b.Referrers() == nil {
		return false
	}
	for _, r := range *b.Referrers() {
		st, ok := r.(*ssa.Store)
		if !ok {
			continue
		}
		fa, ok := st.Addr.(*ssa.FieldAddr)
		if !ok {
			continue
		}
		if pt, ok := fa.X.Type().Underlying().(*types.Pointer); ok {
			if n, ok := pt.Elem().(*types.Named); ok && strings.HasSuffix(n.Obj().Name(), "Stats") {
				return true
			}
		}
	}
	return false
}

func (m *Machine) isLockGuardedField(p *Ptr) bool {
	for _, g := range m.P.Contracts.Guards {
		if g.Kind == "by" && g.Field == p.Mem+"."+p.Path {
			return true
		}
	}
	return false
}
