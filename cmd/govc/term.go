package main

// Terms: hash-consed SMT terms with light-weight simplification.
// A Ctx owns one term universe (one per verified function, so functions can be
// verified in parallel).

import (
	"strconv"
	"sync"
	"fmt"
	"math/big"
	"sort"
	"strings"
)

type SortKind int

const (
	SBool SortKind = iota
	SInt
	SBV
	SArr
)

type Sort struct {
	K         SortKind
	W         int
	Idx, Elem *Sort
	str       string
}

var sortTab = map[string]*Sort{}
var sortMu sync.Mutex

func mkSort(s Sort) *Sort {
	var str string
	switch s.K {
	case SBool:
		str = "Bool"
	case SInt:
		str = "Int"
	case SBV:
		str = fmt.Sprintf("(_ BitVec %d)", s.W)
	case SArr:
		str = fmt.Sprintf("(Array %s %s)", s.Idx.str, s.Elem.str)
	}
	sortMu.Lock()
	defer sortMu.Unlock()
	if p, ok := sortTab[str]; ok {
		return p
	}
	s.str = str
	p := &s
	sortTab[str] = p
	return p
}

var BoolSort = mkSort(Sort{K: SBool})
var IntSort = mkSort(Sort{K: SInt})

func BVSort(w int) *Sort        { return mkSort(Sort{K: SBV, W: w}) }
func ArrSort(i, e *Sort) *Sort  { return mkSort(Sort{K: SArr, Idx: i, Elem: e}) }
func (s *Sort) String() string  { return s.str }

const (
	rcUnknown = 0
	rcOld     = 1 // reference that existed before the function started (or nil)
	rcFresh   = 2 // concrete reference allocated on this path
)

type Term struct {
	op       string
	args     []*Term
	sort     *Sort
	num      *big.Int // numerals (Int and BV); for extract: hi in num, lo in num2
	num2     int
	name     string  // var / app / bound var name
	bvars    []*Term // forall/exists/lambda bound variables
	id       int
	hasBound bool
	rc       int
}

type Ctx struct {
	distinctHook func(a, b *Term) bool
	knownDistinct map[[2]int]bool
	tab    map[string]*Term
	nextID int
	nfresh int
	T, F   *Term
}

func NewCtx() *Ctx {
	c := &Ctx{tab: map[string]*Term{}}
	c.T = c.intern(&Term{op: "true", sort: BoolSort})
	c.F = c.intern(&Term{op: "false", sort: BoolSort})
	return c
}

func (c *Ctx) key(t *Term) string {
	b := make([]byte, 0, 64)
	b = append(b, t.op...)
	b = append(b, '|')
	b = append(b, t.sort.str...)
	b = append(b, '|')
	if t.num != nil {
		b = t.num.Append(b, 10)
	}
	b = append(b, '|')
	b = strconv.AppendInt(b, int64(t.num2), 10)
	b = append(b, '|')
	b = append(b, t.name...)
	for _, a := range t.args {
		b = append(b, ',')
		b = strconv.AppendInt(b, int64(a.id), 10)
	}
	for _, a := range t.bvars {
		b = append(b, ';')
		b = strconv.AppendInt(b, int64(a.id), 10)
	}
	return string(b)
}

func (c *Ctx) intern(t *Term) *Term {
	k := c.key(t)
	if p, ok := c.tab[k]; ok {
		return p
	}
	c.nextID++
	t.id = c.nextID
	for _, a := range t.args {
		if a.hasBound {
			t.hasBound = true
		}
	}
	if t.op == "bound" {
		t.hasBound = true
	}
	c.tab[k] = t
	return t
}

func (c *Ctx) Var(name string, s *Sort) *Term {
	return c.intern(&Term{op: "var", name: name, sort: s})
}

func (c *Ctx) Fresh(prefix string, s *Sort) *Term {
	c.nfresh++
	return c.Var(fmt.Sprintf("%s!%d", sanitize(prefix), c.nfresh), s)
}

func (c *Ctx) Bound(prefix string, s *Sort) *Term {
	c.nfresh++
	return c.intern(&Term{op: "bound", name: fmt.Sprintf("%s!b%d", sanitize(prefix), c.nfresh), sort: s})
}

func sanitize(s string) string {
	var sb strings.Builder
	for _, r := range s {
		if r >= 'a' && r <= 'z' || r >= 'A' && r <= 'Z' || r >= '0' && r <= '9' || r == '_' || r == '.' || r == '$' {
			sb.WriteRune(r)
		} else {
			sb.WriteByte('_')
		}
	}
	return sb.String()
}

func (c *Ctx) Bool(b bool) *Term {
	if b {
		return c.T
	}
	return c.F
}

func (c *Ctx) Int(v int64) *Term { return c.IntBig(big.NewInt(v)) }
func (c *Ctx) IntBig(v *big.Int) *Term {
	return c.intern(&Term{op: "num", sort: IntSort, num: new(big.Int).Set(v)})
}

func (c *Ctx) BV(v int64, w int) *Term { return c.BVBig(big.NewInt(v), w) }
func (c *Ctx) BVBig(v *big.Int, w int) *Term {
	m := new(big.Int).Lsh(big.NewInt(1), uint(w))
	x := new(big.Int).Mod(v, m)
	return c.intern(&Term{op: "num", sort: BVSort(w), num: x})
}

func (t *Term) IsNum() bool   { return t.op == "num" }
func (t *Term) IsTrue() bool  { return t.op == "true" }
func (t *Term) IsFalse() bool { return t.op == "false" }
func (t *Term) Sort() *Sort   { return t.sort }

// signed value of a BV numeral
func (t *Term) SignedVal() *big.Int {
	if t.sort.K != SBV {
		return t.num
	}
	w := t.sort.W
	if t.num.Bit(w-1) == 1 {
		m := new(big.Int).Lsh(big.NewInt(1), uint(w))
		return new(big.Int).Sub(t.num, m)
	}
	return t.num
}

func (c *Ctx) mk(op string, s *Sort, args ...*Term) *Term {
	return c.intern(&Term{op: op, sort: s, args: args})
}

// ---------- boolean ----------

func (c *Ctx) Not(a *Term) *Term {
	switch {
	case a.IsTrue():
		return c.F
	case a.IsFalse():
		return c.T
	case a.op == "not":
		return a.args[0]
	}
	return c.mk("not", BoolSort, a)
}

func (c *Ctx) And(xs ...*Term) *Term {
	var out []*Term
	seen := map[int]bool{}
	for _, x := range xs {
		if x.IsTrue() {
			continue
		}
		if x.IsFalse() {
			return c.F
		}
		if x.op == "and" {
			for _, y := range x.args {
				if !seen[y.id] {
					seen[y.id] = true
					out = append(out, y)
				}
			}
			continue
		}
		if !seen[x.id] {
			seen[x.id] = true
			out = append(out, x)
		}
	}
	for _, x := range out {
		if x.op == "not" && seen[x.args[0].id] {
			return c.F
		}
	}
	if len(out) == 0 {
		return c.T
	}
	if len(out) == 1 {
		return out[0]
	}
	return c.mk("and", BoolSort, out...)
}

func (c *Ctx) Or(xs ...*Term) *Term {
	var out []*Term
	seen := map[int]bool{}
	for _, x := range xs {
		if x.IsFalse() {
			continue
		}
		if x.IsTrue() {
			return c.T
		}
		if x.op == "or" {
			for _, y := range x.args {
				if !seen[y.id] {
					seen[y.id] = true
					out = append(out, y)
				}
			}
			continue
		}
		if !seen[x.id] {
			seen[x.id] = true
			out = append(out, x)
		}
	}
	for _, x := range out {
		if x.op == "not" && seen[x.args[0].id] {
			return c.T
		}
	}
	if len(out) == 0 {
		return c.F
	}
	if len(out) == 1 {
		return out[0]
	}
	return c.mk("or", BoolSort, out...)
}

func (c *Ctx) Implies(a, b *Term) *Term { return c.Or(c.Not(a), b) }

func (c *Ctx) Ite(cond, a, b *Term) *Term {
	if cond.IsTrue() {
		return a
	}
	if cond.IsFalse() {
		return b
	}
	if a == b {
		return a
	}
	if a.sort != b.sort {
		panic(fmt.Sprintf("ite sort mismatch %s vs %s", a.sort, b.sort))
	}
	if a.sort == BoolSort {
		if a.IsTrue() && b.IsFalse() {
			return cond
		}
		if a.IsFalse() && b.IsTrue() {
			return c.Not(cond)
		}
		if a.IsTrue() {
			return c.Or(cond, b)
		}
		if a.IsFalse() {
			return c.And(c.Not(cond), b)
		}
		if b.IsTrue() {
			return c.Or(c.Not(cond), a)
		}
		if b.IsFalse() {
			return c.And(cond, a)
		}
	}
	if cond.op == "not" {
		return c.Ite(cond.args[0], b, a)
	}
	// ite(c, x, ite(c, y, z)) = ite(c, x, z)
	if b.op == "ite" && b.args[0] == cond {
		return c.Ite(cond, a, b.args[2])
	}
	if a.op == "ite" && a.args[0] == cond {
		return c.Ite(cond, a.args[1], b)
	}
	t := c.mk("ite", a.sort, cond, a, b)
	if a.rc == b.rc {
		t.rc = a.rc
	} else if (a.rc == rcOld || a.rc == rcFresh) && (b.rc == rcOld || b.rc == rcFresh) {
		t.rc = rcUnknown
	}
	return t
}

// Distinct reports whether two terms are provably different by cheap syntactic rules.
func (c *Ctx) Distinct(a, b *Term) bool {
	if a == b {
		return false
	}
	if a.IsNum() && b.IsNum() {
		return a.num.Cmp(b.num) != 0
	}
	if a.op == "ite" {
		return c.Distinct(a.args[1], b) && c.Distinct(a.args[2], b)
	}
	if b.op == "ite" {
		return c.Distinct(a, b.args[1]) && c.Distinct(a, b.args[2])
	}
	if a.rc == rcOld && b.rc == rcFresh || a.rc == rcFresh && b.rc == rcOld {
		return true
	}
	if c.distinctHook != nil && a.sort == IntSort && c.distinctHook(a, b) {
		return true
	}
	if c.knownDistinct != nil && (c.knownDistinct[[2]int{a.id, b.id}] || c.knownDistinct[[2]int{b.id, a.id}]) {
		return true
	}
	// x+k1 vs x+k2
	if ba, ka, ok := c.splitAdd(a); ok {
		if bb, kb, ok2 := c.splitAdd(b); ok2 && ba == bb && ka.Cmp(kb) != 0 {
			return true
		}
	}
	return false
}

// splitAdd decomposes t into base + constant (base may be nil for pure constants).
func (c *Ctx) splitAdd(t *Term) (*Term, *big.Int, bool) {
	if t.IsNum() {
		return nil, t.num, true
	}
	if (t.op == "+" || t.op == "bvadd") && len(t.args) == 2 && t.args[1].IsNum() {
		return t.args[0], t.args[1].num, true
	}
	return t, big.NewInt(0), true
}

func (c *Ctx) Eq(a, b *Term) *Term {
	if a == b {
		return c.T
	}
	if a.sort != b.sort {
		panic(fmt.Sprintf("eq sort mismatch %s vs %s: %s / %s", a.sort, b.sort, c.Show(a), c.Show(b)))
	}
	if c.Distinct(a, b) {
		return c.F
	}
	if a.sort == BoolSort {
		if a.IsTrue() {
			return b
		}
		if b.IsTrue() {
			return a
		}
		if a.IsFalse() {
			return c.Not(b)
		}
		if b.IsFalse() {
			return c.Not(a)
		}
	}
	// equality with an ite whose branches can be decided syntactically
	if a.sort == IntSort {
		for k := 0; k < 2; k++ {
			if a.op == "ite" {
				x, y := a.args[1], a.args[2]
				switch {
				case x == b:
					return c.Or(a.args[0], c.Eq(y, b))
				case y == b:
					return c.Or(c.Not(a.args[0]), c.Eq(x, b))
				case c.Distinct(x, b):
					return c.And(c.Not(a.args[0]), c.Eq(y, b))
				case c.Distinct(y, b):
					return c.And(a.args[0], c.Eq(x, b))
				}
			}
			a, b = b, a
		}
	}
	// push equality with a numeral through ite when one branch collapses
	if b.IsNum() && a.op == "ite" {
		if a.args[1].IsNum() && a.args[2].IsNum() {
			return c.Ite(a.args[0], c.Eq(a.args[1], b), c.Eq(a.args[2], b))
		}
	}
	if a.IsNum() && b.op == "ite" {
		return c.Eq(b, a)
	}
	if a.id > b.id {
		a, b = b, a
	}
	return c.mk("=", BoolSort, a, b)
}

func (c *Ctx) Neq(a, b *Term) *Term { return c.Not(c.Eq(a, b)) }

// ---------- integers (sort Int) ----------

func (c *Ctx) IAdd(a, b *Term) *Term {
	if a.IsNum() && b.IsNum() {
		return c.IntBig(new(big.Int).Add(a.num, b.num))
	}
	if a.IsNum() {
		a, b = b, a
	}
	if b.IsNum() {
		if b.num.Sign() == 0 {
			return a
		}
		if a.op == "+" && len(a.args) == 2 && a.args[1].IsNum() {
			return c.IAdd(a.args[0], c.IntBig(new(big.Int).Add(a.args[1].num, b.num)))
		}
	}
	return c.mk("+", IntSort, a, b)
}

func (c *Ctx) ISub(a, b *Term) *Term {
	if a == b {
		return c.Int(0)
	}
	if b.IsNum() {
		return c.IAdd(a, c.IntBig(new(big.Int).Neg(b.num)))
	}
	if a.IsNum() && a.num.Sign() == 0 {
		return c.mk("-", IntSort, b)
	}
	// (x + k) - x = k
	if a.op == "+" && len(a.args) == 2 && a.args[0] == b {
		return a.args[1]
	}
	return c.mk("-", IntSort, a, b)
}

func (c *Ctx) IMul(a, b *Term) *Term {
	if a.IsNum() && b.IsNum() {
		return c.IntBig(new(big.Int).Mul(a.num, b.num))
	}
	if a.IsNum() {
		a, b = b, a
	}
	if b.IsNum() && b.num.Cmp(big.NewInt(1)) == 0 {
		return a
	}
	if b.IsNum() && b.num.Sign() == 0 {
		return b
	}
	return c.mk("*", IntSort, a, b)
}

// IDiv / IMod are SMT-LIB euclidean div/mod (callers ensure non-negative operands
// or handle Go truncation themselves).
func (c *Ctx) IDiv(a, b *Term) *Term {
	if a.IsNum() && b.IsNum() && b.num.Sign() > 0 && a.num.Sign() >= 0 {
		return c.IntBig(new(big.Int).Div(a.num, b.num))
	}
	return c.mk("div", IntSort, a, b)
}
func (c *Ctx) IMod(a, b *Term) *Term {
	if a.IsNum() && b.IsNum() && b.num.Sign() > 0 {
		return c.IntBig(new(big.Int).Mod(a.num, b.num))
	}
	return c.mk("mod", IntSort, a, b)
}

func (c *Ctx) ILt(a, b *Term) *Term {
	if a == b {
		return c.F
	}
	if a.IsNum() && b.IsNum() {
		return c.Bool(a.num.Cmp(b.num) < 0)
	}
	if ba, ka, _ := c.splitAdd(a); ba != nil {
		if bb, kb, _ := c.splitAdd(b); ba == bb {
			return c.Bool(ka.Cmp(kb) < 0)
		}
	}
	return c.mk("<", BoolSort, a, b)
}
func (c *Ctx) ILe(a, b *Term) *Term {
	if a == b {
		return c.T
	}
	if a.IsNum() && b.IsNum() {
		return c.Bool(a.num.Cmp(b.num) <= 0)
	}
	if ba, ka, _ := c.splitAdd(a); ba != nil {
		if bb, kb, _ := c.splitAdd(b); ba == bb {
			return c.Bool(ka.Cmp(kb) <= 0)
		}
	}
	return c.mk("<=", BoolSort, a, b)
}

// ---------- bit-vectors ----------

func mask(w int) *big.Int {
	m := new(big.Int).Lsh(big.NewInt(1), uint(w))
	return m.Sub(m, big.NewInt(1))
}

func (c *Ctx) BVBin(op string, a, b *Term) *Term {
	if a.sort != b.sort {
		panic(fmt.Sprintf("bv sort mismatch in %s: %s vs %s", op, a.sort, b.sort))
	}
	w := a.sort.W
	if a.IsNum() && b.IsNum() {
		x, y := a.num, b.num
		switch op {
		case "bvadd":
			return c.BVBig(new(big.Int).Add(x, y), w)
		case "bvsub":
			return c.BVBig(new(big.Int).Sub(x, y), w)
		case "bvmul":
			return c.BVBig(new(big.Int).Mul(x, y), w)
		case "bvand":
			return c.BVBig(new(big.Int).And(x, y), w)
		case "bvor":
			return c.BVBig(new(big.Int).Or(x, y), w)
		case "bvxor":
			return c.BVBig(new(big.Int).Xor(x, y), w)
		case "bvshl":
			if y.Cmp(big.NewInt(int64(w))) >= 0 {
				return c.BV(0, w)
			}
			return c.BVBig(new(big.Int).Lsh(x, uint(y.Int64())), w)
		case "bvlshr":
			if y.Cmp(big.NewInt(int64(w))) >= 0 {
				return c.BV(0, w)
			}
			return c.BVBig(new(big.Int).Rsh(x, uint(y.Int64())), w)
		case "bvashr":
			sx := a.SignedVal()
			sh := uint(w)
			if y.Cmp(big.NewInt(int64(w))) < 0 {
				sh = uint(y.Int64())
			}
			return c.BVBig(new(big.Int).Rsh(sx, sh), w)
		case "bvudiv":
			if y.Sign() != 0 {
				return c.BVBig(new(big.Int).Div(x, y), w)
			}
		case "bvurem":
			if y.Sign() != 0 {
				return c.BVBig(new(big.Int).Mod(x, y), w)
			}
		}
	}
	zero := func(t *Term) bool { return t.IsNum() && t.num.Sign() == 0 }
	ones := func(t *Term) bool { return t.IsNum() && t.num.Cmp(mask(w)) == 0 }
	switch op {
	case "bvadd":
		if zero(a) {
			return b
		}
		if zero(b) {
			return a
		}
		if a.IsNum() {
			a, b = b, a
		}
		if b.IsNum() && a.op == "bvadd" && a.args[1].IsNum() {
			return c.BVBin("bvadd", a.args[0], c.BVBig(new(big.Int).Add(a.args[1].num, b.num), w))
		}
	case "bvsub":
		if zero(b) {
			return a
		}
		if a == b {
			return c.BV(0, w)
		}
		if b.IsNum() {
			return c.BVBin("bvadd", a, c.BVBig(new(big.Int).Neg(b.num), w))
		}
		if a.op == "bvadd" && a.args[0] == b {
			return a.args[1]
		}
	case "bvor", "bvxor":
		if zero(a) {
			return b
		}
		if zero(b) {
			return a
		}
		if op == "bvor" && (ones(a) || ones(b)) {
			return c.BVBig(mask(w), w)
		}
		if op == "bvor" && a == b {
			return a
		}
	case "bvand":
		if zero(a) || zero(b) {
			return c.BV(0, w)
		}
		if ones(a) {
			return b
		}
		if ones(b) {
			return a
		}
		if a == b {
			return a
		}
	case "bvshl", "bvlshr", "bvashr":
		if zero(b) {
			return a
		}
		if zero(a) {
			return a
		}
	case "bvmul":
		if zero(a) || zero(b) {
			return c.BV(0, w)
		}
	}
	return c.mk(op, a.sort, a, b)
}

func (c *Ctx) BVNeg(a *Term) *Term {
	if a.IsNum() {
		return c.BVBig(new(big.Int).Neg(a.num), a.sort.W)
	}
	return c.mk("bvneg", a.sort, a)
}
func (c *Ctx) BVNot(a *Term) *Term {
	if a.IsNum() {
		return c.BVBig(new(big.Int).Xor(a.num, mask(a.sort.W)), a.sort.W)
	}
	return c.mk("bvnot", a.sort, a)
}

func (c *Ctx) BVCmp(op string, a, b *Term) *Term {
	if a.sort != b.sort {
		panic(fmt.Sprintf("bv sort mismatch in %s: %s vs %s", op, a.sort, b.sort))
	}
	if a.IsNum() && b.IsNum() {
		switch op {
		case "bvult":
			return c.Bool(a.num.Cmp(b.num) < 0)
		case "bvule":
			return c.Bool(a.num.Cmp(b.num) <= 0)
		case "bvslt":
			return c.Bool(a.SignedVal().Cmp(b.SignedVal()) < 0)
		case "bvsle":
			return c.Bool(a.SignedVal().Cmp(b.SignedVal()) <= 0)
		}
	}
	if a == b {
		return c.Bool(op == "bvule" || op == "bvsle")
	}
	return c.mk(op, BoolSort, a, b)
}

func (c *Ctx) Extract(hi, lo int, a *Term) *Term {
	if hi == a.sort.W-1 && lo == 0 {
		return a
	}
	if a.IsNum() {
		v := new(big.Int).Rsh(a.num, uint(lo))
		return c.BVBig(v, hi-lo+1)
	}
	// extract of zero_extend / sign_extend when within the original width
	if (a.op == "zext" || a.op == "sext") && hi < a.args[0].sort.W {
		return c.Extract(hi, lo, a.args[0])
	}
	return c.intern(&Term{op: "extract", sort: BVSort(hi - lo + 1), args: []*Term{a}, num: big.NewInt(int64(hi)), num2: lo})
}

func (c *Ctx) ZExt(a *Term, w int) *Term {
	if a.sort.W == w {
		return a
	}
	if a.IsNum() {
		return c.BVBig(a.num, w)
	}
	return c.intern(&Term{op: "zext", sort: BVSort(w), args: []*Term{a}, num2: w - a.sort.W})
}
func (c *Ctx) SExt(a *Term, w int) *Term {
	if a.sort.W == w {
		return a
	}
	if a.IsNum() {
		return c.BVBig(a.SignedVal(), w)
	}
	return c.intern(&Term{op: "sext", sort: BVSort(w), args: []*Term{a}, num2: w - a.sort.W})
}

// ---------- arrays ----------

func (c *Ctx) ConstArr(s *Sort, v *Term) *Term {
	return c.intern(&Term{op: "constarr", sort: s, args: []*Term{v}})
}

func (c *Ctx) Lambda(bv *Term, body *Term) *Term {
	t := &Term{op: "lambda", sort: ArrSort(bv.sort, body.sort), args: []*Term{body}, bvars: []*Term{bv}}
	t = c.intern(t)
	t.hasBound = c.hasFreeBound(t)
	return t
}

func (c *Ctx) hasFreeBound(t *Term) bool {
	fb := map[int]bool{}
	c.freeBounds(t, map[int]bool{}, fb, map[int]bool{})
	return len(fb) > 0
}

func (c *Ctx) freeBounds(t *Term, bound map[int]bool, out map[int]bool, seen map[int]bool) {
	if !t.hasBound && t.op != "lambda" && t.op != "forall" && t.op != "exists" {
		return
	}
	if t.op == "bound" {
		if !bound[t.id] {
			out[t.id] = true
		}
		return
	}
	if len(t.bvars) > 0 {
		nb := map[int]bool{}
		for k := range bound {
			nb[k] = true
		}
		for _, b := range t.bvars {
			nb[b.id] = true
		}
		for _, a := range t.args {
			c.freeBounds(a, nb, out, map[int]bool{})
		}
		return
	}
	if seen[t.id] {
		return
	}
	seen[t.id] = true
	for _, a := range t.args {
		c.freeBounds(a, bound, out, seen)
	}
}

func (c *Ctx) Select(a, i *Term) *Term {
	if a.sort.K != SArr {
		panic("select on non-array " + a.sort.str)
	}
	if i.sort != a.sort.Idx {
		panic(fmt.Sprintf("select index sort %s, want %s (%s)", i.sort, a.sort.Idx, c.Show(a)))
	}
	for {
		switch a.op {
		case "store":
			if a.args[1] == i {
				return a.args[2]
			}
			if c.Distinct(a.args[1], i) {
				a = a.args[0]
				continue
			}
			if i.sort == IntSort && a.sort.Elem.K == SArr {
				// reference-indexed memory of arrays: expand so that lambdas are always applied
				return c.Ite(c.Eq(a.args[1], i), a.args[2], c.Select(a.args[0], i))
			}
		case "constarr":
			return a.args[0]
		case "lambda":
			return c.Subst(a.args[0], a.bvars[0], i)
		case "ite":
			// select(ite(c, a1, a2), i) = ite(c, select(a1,i), select(a2,i))
			return c.Ite(a.args[0], c.Select(a.args[1], i), c.Select(a.args[2], i))
		}
		break
	}
	t := c.mk("select", a.sort.Elem, a, i)
	return t
}

func (c *Ctx) Store(a, i, v *Term) *Term {
	if i.sort != a.sort.Idx || v.sort != a.sort.Elem {
		panic(fmt.Sprintf("store sort mismatch: arr %s idx %s val %s", a.sort, i.sort, v.sort))
	}
	if a.op == "store" && a.args[1] == i {
		a = a.args[0]
	}
	return c.mk("store", a.sort, a, i, v)
}

// ---------- uninterpreted functions / quantifiers ----------

func (c *Ctx) App(name string, s *Sort, args ...*Term) *Term {
	return c.intern(&Term{op: "app", name: sanitize(name), sort: s, args: args})
}

func (c *Ctx) Forall(bvs []*Term, body *Term) *Term {
	if body.IsTrue() {
		return c.T
	}
	if !body.hasBound {
		return body
	}
	t := c.intern(&Term{op: "forall", sort: BoolSort, args: []*Term{body}, bvars: bvs})
	t.hasBound = c.hasFreeBound(t)
	return t
}
func (c *Ctx) Exists(bvs []*Term, body *Term) *Term {
	if body.IsFalse() {
		return c.F
	}
	if !body.hasBound {
		return body
	}
	t := c.intern(&Term{op: "exists", sort: BoolSort, args: []*Term{body}, bvars: bvs})
	t.hasBound = c.hasFreeBound(t)
	return t
}

// Subst replaces bound variable v by arg in t, rebuilding through the smart constructors.
func (c *Ctx) Subst(t, v, arg *Term) *Term {
	memo := map[int]*Term{}
	var rec func(t *Term) *Term
	rec = func(t *Term) *Term {
		if !t.hasBound {
			return t
		}
		if t == v {
			return arg
		}
		if t.op == "bound" {
			return t
		}
		if r, ok := memo[t.id]; ok {
			return r
		}
		var r *Term
		if len(t.bvars) > 0 {
			for _, b := range t.bvars {
				if b == v {
					memo[t.id] = t
					return t
				}
			}
			nb := rec(t.args[0])
			switch t.op {
			case "lambda":
				r = c.Lambda(t.bvars[0], nb)
			case "forall":
				r = c.Forall(t.bvars, nb)
			case "exists":
				r = c.Exists(t.bvars, nb)
			}
		} else {
			na := make([]*Term, len(t.args))
			changed := false
			for i, a := range t.args {
				na[i] = rec(a)
				if na[i] != a {
					changed = true
				}
			}
			if !changed {
				r = t
			} else {
				r = c.rebuild(t, na)
			}
		}
		memo[t.id] = r
		return r
	}
	return rec(t)
}

func (c *Ctx) rebuild(t *Term, na []*Term) *Term {
	switch t.op {
	case "not":
		return c.Not(na[0])
	case "and":
		return c.And(na...)
	case "or":
		return c.Or(na...)
	case "ite":
		return c.Ite(na[0], na[1], na[2])
	case "=":
		return c.Eq(na[0], na[1])
	case "+":
		return c.IAdd(na[0], na[1])
	case "-":
		if len(na) == 1 {
			return c.ISub(c.Int(0), na[0])
		}
		return c.ISub(na[0], na[1])
	case "*":
		return c.IMul(na[0], na[1])
	case "div":
		return c.IDiv(na[0], na[1])
	case "mod":
		return c.IMod(na[0], na[1])
	case "<":
		return c.ILt(na[0], na[1])
	case "<=":
		return c.ILe(na[0], na[1])
	case "bvadd", "bvsub", "bvmul", "bvand", "bvor", "bvxor", "bvshl", "bvlshr", "bvashr", "bvudiv", "bvurem", "bvsdiv", "bvsrem":
		return c.BVBin(t.op, na[0], na[1])
	case "bvult", "bvule", "bvslt", "bvsle":
		return c.BVCmp(t.op, na[0], na[1])
	case "bvneg":
		return c.BVNeg(na[0])
	case "bvnot":
		return c.BVNot(na[0])
	case "extract":
		return c.Extract(int(t.num.Int64()), t.num2, na[0])
	case "zext":
		return c.ZExt(na[0], t.sort.W)
	case "sext":
		return c.SExt(na[0], t.sort.W)
	case "select":
		return c.Select(na[0], na[1])
	case "store":
		return c.Store(na[0], na[1], na[2])
	case "constarr":
		return c.ConstArr(t.sort, na[0])
	case "app":
		return c.App(t.name, t.sort, na...)
	}
	panic("rebuild: unknown op " + t.op)
}

// ---------- printing ----------

// Show renders a term as a tree (debugging / samples); large terms are truncated.
func (c *Ctx) Show(t *Term) string {
	var sb strings.Builder
	budget := 400
	var rec func(t *Term)
	rec = func(t *Term) {
		if budget <= 0 {
			sb.WriteString("…")
			return
		}
		budget--
		switch t.op {
		case "true", "false":
			sb.WriteString(t.op)
		case "num":
			if t.sort.K == SBV {
				fmt.Fprintf(&sb, "#x%0*x", (t.sort.W+3)/4, t.num)
			} else {
				sb.WriteString(t.num.String())
			}
		case "var", "bound":
			sb.WriteString(t.name)
		default:
			sb.WriteByte('(')
			if t.op == "app" {
				sb.WriteString(t.name)
			} else {
				sb.WriteString(t.op)
			}
			for _, b := range t.bvars {
				sb.WriteString(" [" + b.name + "]")
			}
			for _, a := range t.args {
				sb.WriteByte(' ')
				rec(a)
			}
			sb.WriteByte(')')
		}
	}
	rec(t)
	return sb.String()
}

// Printer writes an SMT-LIB script for a set of assertions.
type Printer struct {
	c       *Ctx
	decls   []string
	defs    []string
	axioms  []string
	seen    map[int]string // closed term id -> printed name or literal
	declSet map[string]bool
	forCVC5 bool
}

func (c *Ctx) NewPrinter() *Printer {
	return &Printer{c: c, seen: map[int]string{}, declSet: map[string]bool{}}
}

func numLit(t *Term) string {
	if t.sort.K == SBV {
		if t.sort.W%4 == 0 {
			return fmt.Sprintf("#x%0*x", t.sort.W/4, t.num)
		}
		return fmt.Sprintf("(_ bv%s %d)", t.num.String(), t.sort.W)
	}
	if t.num.Sign() < 0 {
		return "(- " + new(big.Int).Neg(t.num).String() + ")"
	}
	return t.num.String()
}

func quoteSym(s string) string { return "|" + s + "|" }

func (p *Printer) declare(name string, decl string) {
	if !p.declSet[name] {
		p.declSet[name] = true
		p.decls = append(p.decls, decl)
	}
}

// term returns a string usable as a sub-expression. Closed non-leaf terms are
// hoisted into define-funs so that shared sub-DAGs are printed once.
func (p *Printer) term(t *Term) string {
	if !t.hasBound {
		if s, ok := p.seen[t.id]; ok {
			return s
		}
	}
	var s string
	switch t.op {
	case "true", "false":
		s = t.op
	case "num":
		s = numLit(t)
	case "var":
		s = quoteSym(t.name)
		p.declare(t.name, fmt.Sprintf("(declare-fun %s () %s)", s, t.sort))
	case "bound":
		return quoteSym(t.name)
	case "lambda":
		if t.hasBound {
			// nested lambda depending on an outer bound variable: print as z3 lambda
			s = fmt.Sprintf("(lambda ((%s %s)) %s)", quoteSym(t.bvars[0].name), t.bvars[0].sort, p.term(t.args[0]))
			return s
		}
		// closed lambda: fresh array constant with a defining axiom
		name := fmt.Sprintf("lam!%d", t.id)
		s = quoteSym(name)
		p.declare(name, fmt.Sprintf("(declare-fun %s () %s)", s, t.sort))
		bv := t.bvars[0]
		body := p.term(t.args[0])
		p.axioms = append(p.axioms, fmt.Sprintf("(assert (forall ((%s %s)) (! (= (select %s %s) %s) :pattern ((select %s %s)))))",
			quoteSym(bv.name), bv.sort, s, quoteSym(bv.name), body, s, quoteSym(bv.name)))
		p.seen[t.id] = s
		return s
	case "forall", "exists":
		var vs []string
		for _, b := range t.bvars {
			vs = append(vs, fmt.Sprintf("(%s %s)", quoteSym(b.name), b.sort))
		}
		s = fmt.Sprintf("(%s (%s) %s)", t.op, strings.Join(vs, " "), p.term(t.args[0]))
	default:
		var as []string
		for _, a := range t.args {
			as = append(as, p.term(a))
		}
		switch t.op {
		case "extract":
			s = fmt.Sprintf("((_ extract %d %d) %s)", t.num.Int64(), t.num2, as[0])
		case "zext":
			s = fmt.Sprintf("((_ zero_extend %d) %s)", t.num2, as[0])
		case "sext":
			s = fmt.Sprintf("((_ sign_extend %d) %s)", t.num2, as[0])
		case "constarr":
			s = fmt.Sprintf("((as const %s) %s)", t.sort, as[0])
		case "app":
			var ss []string
			for _, a := range t.args {
				ss = append(ss, a.sort.String())
			}
			p.declare("app:"+t.name, fmt.Sprintf("(declare-fun %s (%s) %s)", quoteSym(t.name), strings.Join(ss, " "), t.sort))
			if len(as) == 0 {
				s = quoteSym(t.name)
			} else {
				s = fmt.Sprintf("(%s %s)", quoteSym(t.name), strings.Join(as, " "))
			}
		case "-":
			s = fmt.Sprintf("(- %s)", strings.Join(as, " "))
		default:
			s = fmt.Sprintf("(%s %s)", t.op, strings.Join(as, " "))
		}
	}
	if t.hasBound {
		return s
	}
	if (len(t.args) == 0 && len(t.bvars) == 0) || t.op == "constarr" {
		// leaves and constant arrays are printed in place (cvc5 wants a literal inside (as const ...))
		p.seen[t.id] = s
		return s
	}
	name := fmt.Sprintf("t!%d", t.id)
	p.defs = append(p.defs, fmt.Sprintf("(define-fun %s () %s %s)", name, t.sort, s))
	p.seen[t.id] = name
	return name
}

// Script renders: declarations, definitions, axioms, then the given assertions, check-sat.
// named: optional names of terms whose model values are requested after check-sat.
func (p *Printer) Script(asserts []*Term, getValues []*Term) string {
	var body []string
	for _, a := range asserts {
		body = append(body, fmt.Sprintf("(assert %s)", p.term(a)))
	}
	var gv []string
	for _, t := range getValues {
		gv = append(gv, p.term(t))
	}
	var sb strings.Builder
	sb.WriteString("(set-option :produce-models true)\n(set-logic ALL)\n")
	// defs and axioms were produced in dependency order but interleaved with
	// declarations of symbols they use; declarations all go first.
	for _, d := range p.decls {
		sb.WriteString(d)
		sb.WriteByte('\n')
	}
	// definitions and lambda axioms must be ordered by creation; lambda axioms
	// only reference names already defined at the time they were created, but
	// defs created later may reference the lambda constant (declared above).
	for _, d := range p.defs {
		sb.WriteString(d)
		sb.WriteByte('\n')
	}
	for _, d := range p.axioms {
		sb.WriteString(d)
		sb.WriteByte('\n')
	}
	for _, b := range body {
		sb.WriteString(b)
		sb.WriteByte('\n')
	}
	sb.WriteString("(check-sat)\n")
	if len(gv) > 0 {
		sb.WriteString("(get-value (" + strings.Join(gv, " ") + "))\n")
	}
	return sb.String()
}

// ScriptNamed: assertions with a non-empty name are named (for unsat cores).
func (p *Printer) ScriptNamed(asserts []*Term, names []string) string {
	var body []string
	for i, a := range asserts {
		if names[i] != "" {
			body = append(body, fmt.Sprintf("(assert (! %s :named %s))", p.term(a), names[i]))
		} else {
			body = append(body, fmt.Sprintf("(assert %s)", p.term(a)))
		}
	}
	var sb strings.Builder
	sb.WriteString("(set-option :produce-unsat-cores true)\n(set-logic ALL)\n")
	for _, d := range p.decls {
		sb.WriteString(d)
		sb.WriteByte('\n')
	}
	for _, d := range p.defs {
		sb.WriteString(d)
		sb.WriteByte('\n')
	}
	for _, d := range p.axioms {
		sb.WriteString(d)
		sb.WriteByte('\n')
	}
	for _, b := range body {
		sb.WriteString(b)
		sb.WriteByte('\n')
	}
	sb.WriteString("(check-sat)\n(get-unsat-core)\n")
	return sb.String()
}

func sortedKeys[V any](m map[string]V) []string {
	var ks []string
	for k := range m {
		ks = append(ks, k)
	}
	sort.Strings(ks)
	return ks
}
