package main

import (
	"fmt"
	"os"
	"sort"
	"go/constant"
	"go/types"
	"math/big"
	"strings"

	"golang.org/x/tools/go/ssa"
)

// ---------- call dispatch ----------

func (m *Machine) bindResult(fr *Frame, instr ssa.Value, sig *types.Signature, rets []Value) {
	if instr == nil {
		return
	}
	switch sig.Results().Len() {
	case 0:
		fr.env[instr] = nil
	case 1:
		fr.env[instr] = rets[0]
	default:
		fr.env[instr] = &Tuple{rets}
	}
}

func (m *Machine) call(st *State, fr *Frame, instr ssa.Instruction, cc *ssa.CallCommon, resVal ssa.Value) {
	var args []Value
	for _, a := range cc.Args {
		args = append(args, m.val(st, fr, a))
	}
	if b, ok := cc.Value.(*ssa.Builtin); ok {
		r := m.builtin(st, fr, instr, b, cc, args)
		if resVal != nil {
			fr.env[resVal] = r
		}
		fr.ip++
		return
	}
	if cc.IsInvoke() {
		recv := m.val(st, fr, cc.Value).(*Iface)
		m.invoke(st, fr, instr, cc, recv, args, resVal, 0)
		return
	}
	if fn := cc.StaticCallee(); fn != nil {
		var fvals []Value
		if mc, ok := cc.Value.(*ssa.MakeClosure); ok {
			for _, b := range mc.Bindings {
				fvals = append(fvals, m.val(st, fr, b))
			}
		}
		m.callFunc(st, fr, instr, fn, args, fvals, resVal, 0)
		return
	}
	// dynamic call through a function value
	fv := m.val(st, fr, cc.Value).(*Term)
	m.callValue(st, fr, instr, cc.Value.Type(), fv, args, resVal, 0)
}

func (m *Machine) callValue(st *State, fr *Frame, instr ssa.Instruction, ftype types.Type, fv *Term, args []Value, resVal ssa.Value, kind int) {
	ord := fmt.Sprint(m.ordinal(fr.fn, instr, ""))
	if fv.IsNum() && fv.num.Sign() == 0 {
		m.oblige(st, fr, "safe.nilfunc", ord, m.ctx.F, m.safeTags(), "call of nil function")
		st.dead = true
		return
	}
	if fn, ok := m.closureCode(st, fv); ok {
		fvals := m.closureBindings(st, fv, fn)
		m.callFunc(st, fr, instr, fn, args, fvals, resVal, kind)
		return
	}
	if !fv.IsNum() {
		m.oblige(st, fr, "safe.nilfunc", ord, m.ctx.Neq(fv, m.ctx.Int(0)), m.safeTags(), "call of nil function")
	}
	// unknown function value: fntype contract by named type, else callback model
	tn := m.ts.typeName(ftype)
	sig := ftype.Underlying().(*types.Signature)
	if fc, ok := m.P.Contracts.FnTypes[tn]; ok {
		rets := m.applyContract(st, fr, instr, fc, "fntype:"+tn, nil, sig, args, nil, fv)
		if kind != 1 {
			m.bindResult(fr, resVal, sig, rets)
			fr.ip++
		}
		return
	}
	rets := m.callbackModel(st, fr, "callback:"+tn, sig, args)
	if kind != 1 {
		m.bindResult(fr, resVal, sig, rets)
		fr.ip++
	}
}

// callbackModel: user-supplied code. Trusted: it returns, and touches library state
// only through the public API (guarded fields are re-read under their locks anyway).
func (m *Machine) callbackModel(st *State, fr *Frame, name string, sig *types.Signature, args []Value) []Value {
	m.trusted[name+" (user callback: returns; modifies library state only through the public API)"] = true
	var rets []Value
	for i := 0; i < sig.Results().Len(); i++ {
		v := m.ts.FreshValue("cb", sig.Results().At(i).Type())
		m.assumeWellFormed(st, sig.Results().At(i).Type(), v)
		rets = append(rets, v)
	}
	for i, a := range args {
		if i < sig.Params().Len() {
			m.escapeValue(st, sig.Params().At(i).Type(), a)
		}
	}
	if name == "callback:func(ConnState, error)" || name == "callback:func(error)" {
		m.userCodeUnlocked(st, fr, name)
	}
	m.addEvent(st, name, args, rets)
	m.timePasses(st)
	return rets
}

// userCodeUnlocked: application callbacks (ConnState, OnError, Handler.Serve) may call back into the
// client; invoking them while a library mutex is held deadlocks such a callback and everything that waits
// for the goroutine (C11). Obligation: no mutex is held at the call.
func (m *Machine) userCodeUnlocked(st *State, fr *Frame, name string) {
	if st.pure {
		return
	}
	held := ""
	var keys []string
	for k, v := range st.locks {
		if v > 0 {
			keys = append(keys, k)
		}
	}
	sort.Strings(keys)
	if len(keys) > 0 {
		held = strings.Join(keys, ",")
	}
	okk := held == ""
	m.recordObl(st, fr, "guard", "usercode."+strings.TrimPrefix(name, "callback:"), m.ctx.Bool(okk), []string{"C10", "C11"},
		"application code ("+name+") is called with no library mutex held (a callback that calls back into the client would deadlock); held: "+held, okk)
}

func (m *Machine) addEvent(st *State, name string, args, rets []Value) *Event {
	ev := m.newEvent(st, name, args)
	ev.Rets = rets
	st.events = append(st.events, ev)
	m.trace(st, "ev:"+name)
	return ev
}

// newEvent builds an event record (argument contents are snapshotted now) without appending it.
func (m *Machine) newEvent(st *State, name string, args []Value) *Event {
	ev := &Event{Name: name, Args: args, Seqs: map[int]*SeqV{}, Snaps: map[int]*SliceSnap{}, Locks: map[string]int{}}
	for k, v := range st.locks {
		if v > 0 {
			ev.Locks[k] = v
		}
	}
	for i, a := range args {
		if s, ok := a.(*Slice); ok {
			func() {
				defer func() { recover() }()
				ss := &SliceSnap{Len: s.Len, Off: s.Off, Elem: s.Elem}
				for _, l := range m.ts.Leaves(s.Elem) {
					ss.Arrs = append(ss.Arrs, m.elemArr(st, s.Elem, s.Arr, l))
				}
				ev.Snaps[i] = ss
			}()
			if b, isB := s.Elem.Underlying().(*types.Basic); isB && b.Kind() == types.Uint8 {
				ev.Seqs[i] = m.seqOfSlice(st, s)
			}
		}
	}
	return ev
}

func (m *Machine) isGhostFn(fn *ssa.Function) bool {
	if fn.Pkg != m.P.SSA {
		return false
	}
	pos := m.P.Fset.Position(fn.Pos())
	return strings.HasSuffix(pos.Filename, ghostFileName)
}

func (m *Machine) onStack(st *State, fn *ssa.Function) bool {
	for _, f := range st.frames {
		if f.fn == fn {
			return true
		}
	}
	return false
}

func (m *Machine) callFunc(st *State, fr *Frame, instr ssa.Instruction, fn *ssa.Function, args []Value, fvals []Value, resVal ssa.Value, kind int) {
	finish := func(rets []Value) {
		if kind == 1 {
			return // deferred: stay on RunDefers
		}
		m.bindResult(fr, resVal, fn.Signature, rets)
		fr.ip++
	}
	// generic instances of ghost builtins
	name := fn.Name()
	if o := fn.Origin(); o != nil {
		name = o.Name()
	}
	if fn.Pkg == m.P.SSA || (fn.Pkg == nil && fn.Origin() != nil && fn.Origin().Pkg == m.P.SSA) {
		if h, ok := ghostHandlers[name]; ok && (m.isGhostFn(fn) || fn.Origin() != nil) {
			r := h(m, st, fr, instr, fn, args)
			finish([]Value{r})
			return
		}
	}
	if fn.String() == "(*sync.Once).Do" && !st.pure {
		// trusted: f runs at most once over all Do calls on this Once; this call either runs it or not
		m.trusted["(*sync.Once).Do: the function is executed by at most one Do call (this one or an earlier one)"] = true
		m.trusted["sync.Once objects are used only by the goroutine under verification (their done flag does not change behind its back)"] = true
		call := instr.(ssa.CallInstruction).Common()
		op := args[0].(*Ptr)
		key := m.onceKey(op)
		a := m.heapGet(st, "once.done", ArrSort(IntSort, BoolSort))
		doneT := m.ctx.Select(a, key)
		skip := st.clone()
		skip.assume(doneT)
		skip.top().ip++
		m.trace(skip, "once:skip")
		m.addEvent(skip, "once.skip", nil, nil)
		m.pushWork(skip)
		st.assume(m.ctx.Not(doneT))
		st.heap["once.done"] = m.ctx.Store(a, key, m.ctx.T)
		m.trace(st, "once:run")
		m.addEvent(st, "once.run", nil, nil)
		m.callValue(st, fr, instr, call.Args[1].Type(), args[1].(*Term), nil, nil, kind)
		return
	}
	if fn.Blocks == nil || (fn.Pkg != nil && fn.Pkg != m.P.SSA) || (fn.Pkg == nil && fn.Origin() == nil && fn.Synthetic == "" ) {
		if fn.Pkg != m.P.SSA && !(fn.Pkg == nil && fn.Synthetic != "") {
			rets := m.external(st, fr, instr, fn, args)
			finish(rets)
			return
		}
	}
	if fn.Blocks != nil && m.isGhostFn(fn) && m.isRecursive(fn) {
		finish(m.recCall(st, fn, args))
		return
	}
	rn := relName(fn)
	fc := m.P.Contracts.Funcs[rn]
	useContract := fc != nil && !fc.Inline && fn != m.fn
	if fn == m.fn && len(st.frames) > 0 {
		// recursive call of the function under verification: by its own contract
		useContract = fc != nil
		if fc == nil {
			panic(unsupported("recursive call without contract: " + rn))
		}
	}
	if !useContract && m.onStack(st, fn) {
		if fc == nil {
			panic(unsupported("recursion without contract: " + rn))
		}
		useContract = true
	}
	if st.pure && m.isGhostFn(fn) {
		useContract = false
	}
	if useContract {
		rets := m.applyContract(st, fr, instr, fc, rn, fn, fn.Signature, args, fvals, nil)
		finish(rets)
		return
	}
	if fn.Blocks == nil {
		rets := m.external(st, fr, instr, fn, args)
		finish(rets)
		return
	}
	m.pushFrame(st, fn, args, fvals, resVal, kind)
	if !m.isGhostFn(fn) {
		m.trace(st, "inline:"+rn)
	}
}

func (m *Machine) callDeferred(st *State, fr *Frame, d *deferred) {
	cc := d.call
	if b, ok := cc.Value.(*ssa.Builtin); ok {
		m.builtin(st, fr, d.pos, b, cc, d.args)
		return
	}
	if cc.IsInvoke() {
		m.invoke(st, fr, d.pos, cc, d.fn.(*Iface), d.args, nil, 1)
		return
	}
	if fn := cc.StaticCallee(); fn != nil {
		var fvals []Value
		if _, ok := cc.Value.(*ssa.MakeClosure); ok {
			fvals = m.closureBindings(st, d.fn.(*Term), fn)
		}
		m.callFunc(st, fr, d.pos, fn, d.args, fvals, nil, 1)
		return
	}
	m.callValue(st, fr, d.pos, cc.Value.Type(), d.fn.(*Term), d.args, nil, 1)
}

// ---------- builtins ----------

func (m *Machine) builtin(st *State, fr *Frame, instr ssa.Instruction, b *ssa.Builtin, cc *ssa.CallCommon, args []Value) Value {
	c := m.ctx
	switch b.Name() {
	case "len":
		switch x := args[0].(type) {
		case *Slice:
			return x.Len
		case *Str:
			return x.Len
		case *Term:
			// map or chan length: unknown non-negative
			n := c.Fresh("len", m.ts.Idx())
			st.assume(m.idxLe(m.ts.IdxConst(0), n))
			return n
		}
	case "cap":
		if x, ok := args[0].(*Slice); ok {
			return x.Cap
		}
	case "append":
		s := args[0].(*Slice)
		switch t := args[1].(type) {
		case *Slice:
			srcArrs := map[string]*Term{}
			for _, l := range m.ts.Leaves(s.Elem) {
				srcArrs[l.path] = m.elemArr(st, s.Elem, t.Arr, l)
			}
			r := m.appendSlices(st, s, t.Len, func(l leaf, j *Term) *Term {
				return c.Select(srcArrs[l.path], m.idxAdd(t.Off, j))
			}, s.Elem)
			// appended element values (may contain references) are now reachable from the result
			if !m.isLocalRef(st, s.Arr) {
				m.escapeRef(st, t.Arr)
			}
			return r
		case *Str:
			return m.appendSlices(st, s, t.Len, func(l leaf, j *Term) *Term { return c.Select(t.Arr, j) }, s.Elem)
		}
	case "copy":
		panic(unsupported("copy builtin"))
	case "delete":
		ref := args[0].(*Term)
		_, mt := m.mapNames(cc.Args[0].Type())
		m.guardMap(st, fr, instr, cc.Args[0], true)
		if !m.guardedMaps[ref.id] && !m.isGhostFn(fr.fn) {
			mn, _ := m.mapNames(cc.Args[0].Type())
			m.frameCheck(st, fr, instr, &Ptr{Mem: mn, Ref: ref, Elem: mt.Elem()}, "map delete")
		}
		m.mapDelete(st, cc.Args[0].Type(), ref, m.keyTerm(mt, args[1]))
		return nil
	case "close":
		ch := args[0].(*Term)
		ord := fmt.Sprint(m.ordinal(fr.fn, instr, ""))
		m.oblige(st, fr, "safe.close", ord, c.And(c.Neq(ch, c.Int(0)), c.Not(m.chanClosed(st, ch))), m.safeTags(), "close of nil or closed channel")
		if m.transferred[ch.id] {
			m.oblige(st, fr, "chan.transferred", ord, c.F, m.safeTags(), "close of a channel whose ownership was handed to a spawned goroutine (ownsChan)")
		}
		if ct, ok := cc.Args[0].Type().Underlying().(*types.Chan); ok && strings.Contains(m.chanInvOf(ct.Elem()), "neverclosed") {
			m.oblige(st, fr, "chan.neverclosed", ord, c.F, m.safeTags(), "channels of "+m.ts.typeName(ct.Elem())+" are never closed (channel invariant)")
		}
		m.setClosed(st, ch)
		m.addEvent(st, "close", []Value{ch}, nil)
		return nil
	case "print", "println":
		return nil
	}
	panic(unsupported("builtin " + b.Name()))
}

// ---------- interface method calls ----------

func (m *Machine) invoke(st *State, fr *Frame, instr ssa.Instruction, cc *ssa.CallCommon, recv *Iface, args []Value, resVal ssa.Value, kind int) {
	sig := cc.Signature()
	ord := fmt.Sprint(m.ordinal(fr.fn, instr, ""))
	if recv.Tag.IsNum() && recv.Tag.num.Sign() == 0 {
		m.oblige(st, fr, "safe.nil", "invoke."+ord, m.ctx.F, m.safeTags(), "method call on nil interface")
		st.dead = true
		return
	}
	if !recv.Tag.IsNum() {
		m.oblige(st, fr, "safe.nil", "invoke."+ord, m.ctx.Neq(recv.Tag, m.ctx.Int(0)), m.safeTags(), "method call on nil interface")
	}
	if recv.Tag.IsNum() {
		// static dispatch
		t := m.typeOf[recv.Tag.num.Int64()]
		ms := m.P.Prog.MethodSets.MethodSet(t)
		sel := ms.Lookup(cc.Method.Pkg(), cc.Method.Name())
		if sel != nil {
			fn := m.P.Prog.MethodValue(sel)
			if fn != nil {
				rv := m.unbox(st, t, recv.Val)
				m.callFunc(st, fr, instr, fn, append([]Value{rv}, args...), nil, resVal, kind)
				return
			}
		}
	}
	iname := m.ts.typeName(cc.Value.Type()) + "." + cc.Method.Name()
	rets := m.ifaceModel(st, fr, instr, iname, cc, recv, sig, args)
	if kind != 1 {
		m.bindResult(fr, resVal, sig, rets)
		fr.ip++
	}
}

// ---------- pure evaluation (ghost code) ----------

type pureResult struct {
	conds []*Term
	rets  []Value
	pcs   []*Term
}

// pureCall symbolically evaluates fn (ghost / spec code) on all paths and merges the results.
func (m *Machine) pureCall(st *State, fn *ssa.Function, args []Value, fvals []Value) []Value {
	sub := &State{pure: true, opaque: st.opaque, opaqueNfresh: st.opaqueNfresh, evBase: st.evBase, ghostCells: st.ghostCells, guardSnaps: st.guardSnaps, guardVals: st.guardVals, closerFresh: st.closerFresh, closerSpawned: st.closerSpawned, reads: st.reads, recDone: st.recDone, heap: cloneHeap(st.heap), locks: st.locks, chanQ: map[int][]chanQuery{}, chanVer: st.chanVer, definable: st.definable, defs: st.defs}
	sub.pc = append([]*Term{}, st.pc...)
	sub.events = st.events
	sub.fresh = make([]*freshObj, len(st.fresh))
	for i, f := range st.fresh {
		c := *f
		sub.fresh[i] = &c
	}
	for k, v := range st.chanQ {
		sub.chanQ[k] = v
	}
	base := len(sub.pc)
	// pure evaluation happens "inside" the current frames for entry/let lookups
	sub.frames = append([]*Frame{}, st.frames...)
	nBase := len(sub.frames)
	sub.baseFrames = nBase
	m.pushFrame(sub, fn, args, fvals, nil, 2)
	savedWork := m.work
	m.work = []*State{sub}
	var results []pureResult
	n := 0
	for len(m.work) > 0 {
		s := m.work[len(m.work)-1]
		m.work = m.work[:len(m.work)-1]
		n++
		if n > 4000 {
			m.work = savedWork
			panic(unsupported("pure evaluation of " + fn.Name() + " exceeds 4000 paths"))
		}
		m.runPure(s, nBase)
		if s.dead || !s.done {
			continue
		}
		var extra []*Term
		isBranch := map[int]bool{}
		for _, b := range s.branch {
			isBranch[b.id] = true
		}
		for _, p := range s.pc[base:] {
			if !isBranch[p.id] {
				extra = append(extra, p)
			}
		}
		results = append(results, pureResult{conds: s.branch, rets: s.rets, pcs: extra})
		if s.defs != nil {
			if st.defs == nil {
				st.defs = map[int]*seqDef{}
			}
			for k, v := range s.defs {
				st.defs[k] = v
			}
		}
	}
	m.work = savedWork
	if len(results) == 0 {
		// no path returns (e.g. spec indexes out of range everywhere): unconstrained
		var rets []Value
		for i := 0; i < fn.Signature.Results().Len(); i++ {
			rets = append(rets, m.ts.FreshValue("undef", fn.Signature.Results().At(i).Type()))
		}
		return rets
	}
	for _, r := range results {
		cond := m.ctx.And(r.conds...)
		for _, p := range r.pcs {
			m.assumeOnce(st, m.ctx.Implies(cond, p))
		}
	}
	res := results[len(results)-1].rets
	for i := len(results) - 2; i >= 0; i-- {
		cond := m.ctx.And(results[i].conds...)
		merged := make([]Value, len(res))
		for j := range res {
			merged[j] = m.mergeValue(cond, results[i].rets[j], res[j])
		}
		res = merged
	}
	return res
}

func (m *Machine) runPure(st *State, nBase int) {
	for !st.dead && !st.done {
		fr := st.top()
		ins := fr.block.Instrs[fr.ip]
		st.steps++
		if st.steps > 100000 {
			panic(unsupported("pure evaluation step budget"))
		}
		if ret, ok := ins.(*ssa.Return); ok && len(st.frames) == nBase+1 {
			var rets []Value
			for _, r := range ret.Results {
				rets = append(rets, m.val(st, fr, r))
			}
			st.rets = rets
			st.done = true
			return
		}
		m.exec(st, fr, ins)
	}
}

func (m *Machine) mergeValue(cond *Term, a, b Value) Value {
	c := m.ctx
	switch x := a.(type) {
	case nil:
		return nil
	case *Term:
		return c.Ite(cond, x, b.(*Term))
	case *Ptr:
		y := b.(*Ptr)
		if x.Mem == y.Mem && x.Path == y.Path && (x.Idx == nil) == (y.Idx == nil) {
			r := &Ptr{Mem: x.Mem, Ref: c.Ite(cond, x.Ref, y.Ref), Path: x.Path, Elem: x.Elem}
			if x.Idx != nil {
				r.Idx = c.Ite(cond, x.Idx, y.Idx)
			}
			return r
		}
		panic(unsupported("merging pointers into different memories"))
	case *Slice:
		y := b.(*Slice)
		return &Slice{c.Ite(cond, x.Arr, y.Arr), c.Ite(cond, x.Off, y.Off), c.Ite(cond, x.Len, y.Len), c.Ite(cond, x.Cap, y.Cap), x.Elem}
	case *Str:
		y := b.(*Str)
		return &Str{c.Ite(cond, x.Len, y.Len), c.Ite(cond, x.Arr, y.Arr)}
	case *Iface:
		y := b.(*Iface)
		return &Iface{c.Ite(cond, x.Tag, y.Tag), c.Ite(cond, x.Val, y.Val)}
	case *Tuple:
		y := b.(*Tuple)
		r := &Tuple{}
		for i := range x.Elems {
			r.Elems = append(r.Elems, m.mergeValue(cond, x.Elems[i], y.Elems[i]))
		}
		return r
	case *SeqV:
		y := b.(*SeqV)
		return &SeqV{N: c.Ite(cond, x.N, y.N), At: func(i *Term) *Term { return c.Ite(cond, x.At(i), y.At(i)) }}
	}
	panic(fmt.Sprintf("mergeValue %T", a))
}

// ---------- ghost builtins ----------

type ghostHandler func(m *Machine, st *State, fr *Frame, instr ssa.Instruction, fn *ssa.Function, args []Value) Value

var ghostHandlers map[string]ghostHandler

func constStringArg(instr ssa.Instruction, i int) string {
	call := instr.(ssa.CallInstruction).Common()
	c, ok := call.Args[i].(*ssa.Const)
	if !ok {
		panic(unsupported("ghost builtin needs a constant string argument"))
	}
	return constant.StringVal(c.Value)
}

func (m *Machine) constIntArg(instr ssa.Instruction, i int, v Value) int {
	t := v.(*Term)
	if !t.IsNum() {
		panic(unsupported("ghost builtin needs a constant integer argument"))
	}
	return int(t.SignedVal().Int64())
}

func (m *Machine) seqOfSlice(st *State, s *Slice) *SeqV {
	l := m.ts.Leaves(s.Elem)[0]
	content := m.elemArr(st, s.Elem, s.Arr, l)
	off := s.Off
	return &SeqV{N: s.Len, At: func(i *Term) *Term { return m.ctx.Select(content, m.idxAdd(off, i)) }}
}

func (m *Machine) seqEqTerm(a, b *SeqV) *Term {
	c := m.ctx
	i := c.Bound("q", m.ts.Idx())
	body := c.Implies(m.inBounds(i, a.N), c.Eq(a.At(i), b.At(i)))
	return c.And(c.Eq(a.N, b.N), c.Forall([]*Term{i}, body))
}

// rawArg returns the value of the operand wrapped by a MakeInterface argument.
func (m *Machine) rawArg(st *State, fr *Frame, instr ssa.Instruction, i int) (Value, types.Type) {
	call := instr.(ssa.CallInstruction).Common()
	a := call.Args[i]
	if mi, ok := a.(*ssa.MakeInterface); ok {
		return m.val(st, fr, mi.X), mi.X.Type()
	}
	return m.val(st, fr, a), a.Type()
}

func init() {
	ghostHandlers = map[string]ghostHandler{
		"seq0": func(m *Machine, st *State, fr *Frame, instr ssa.Instruction, fn *ssa.Function, args []Value) Value {
			return &SeqV{N: m.ts.IdxConst(0), At: func(*Term) *Term { return m.ts.zeroOf(m.ts.ByteSort()) }}
		},
		"seqOf": func(m *Machine, st *State, fr *Frame, instr ssa.Instruction, fn *ssa.Function, args []Value) Value {
			s := args[0].(*Slice)
			sv := m.seqOfSlice(st, s)
			if st.definable != nil && st.definable[s.Arr.id] {
				sv.Src = s
			}
			return sv
		},
		"bytesOf": func(m *Machine, st *State, fr *Frame, instr ssa.Instruction, fn *ssa.Function, args []Value) Value {
			s := args[0].(*Str)
			return &SeqV{N: s.Len, At: func(i *Term) *Term { return m.ctx.Select(s.Arr, i) }}
		},
		"cat": func(m *Machine, st *State, fr *Frame, instr ssa.Instruction, fn *ssa.Function, args []Value) Value {
			a, b := args[0].(*SeqV), args[1].(*SeqV)
			return m.seqCat(a, b)
		},
		"cat3": func(m *Machine, st *State, fr *Frame, instr ssa.Instruction, fn *ssa.Function, args []Value) Value {
			return m.seqCat(m.seqCat(args[0].(*SeqV), args[1].(*SeqV)), args[2].(*SeqV))
		},
		"cat4": func(m *Machine, st *State, fr *Frame, instr ssa.Instruction, fn *ssa.Function, args []Value) Value {
			return m.seqCat(m.seqCat(m.seqCat(args[0].(*SeqV), args[1].(*SeqV)), args[2].(*SeqV)), args[3].(*SeqV))
		},
		"b1": func(m *Machine, st *State, fr *Frame, instr ssa.Instruction, fn *ssa.Function, args []Value) Value {
			b := args[0].(*Term)
			return &SeqV{N: m.ts.IdxConst(1), At: func(*Term) *Term { return b }}
		},
		"u16be": func(m *Machine, st *State, fr *Frame, instr ssa.Instruction, fn *ssa.Function, args []Value) Value {
			v := args[0].(*Term)
			var hi, lo *Term
			if m.mode == ModeBV {
				hi, lo = m.ctx.Extract(15, 8, v), m.ctx.Extract(7, 0, v)
			} else {
				hi, lo = m.ctx.IDiv(v, m.ctx.Int(256)), m.ctx.IMod(v, m.ctx.Int(256))
			}
			return &SeqV{N: m.ts.IdxConst(2), At: func(i *Term) *Term { return m.ctx.Ite(m.ctx.Eq(i, m.ts.IdxConst(0)), hi, lo) }}
		},
		"sub": func(m *Machine, st *State, fr *Frame, instr ssa.Instruction, fn *ssa.Function, args []Value) Value {
			s, lo, hi := args[0].(*SeqV), args[1].(*Term), args[2].(*Term)
			return &SeqV{N: m.idxSub(hi, lo), At: func(i *Term) *Term { return s.At(m.idxAdd(lo, i)) }}
		},
		"slen": func(m *Machine, st *State, fr *Frame, instr ssa.Instruction, fn *ssa.Function, args []Value) Value {
			return args[0].(*SeqV).N
		},
		"sat": func(m *Machine, st *State, fr *Frame, instr ssa.Instruction, fn *ssa.Function, args []Value) Value {
			return args[0].(*SeqV).At(args[1].(*Term))
		},
		"mkseq": func(m *Machine, st *State, fr *Frame, instr ssa.Instruction, fn *ssa.Function, args []Value) Value {
			n := args[0].(*Term)
			f := args[1].(*Term)
			cfn, ok := m.closureCode(st, f)
			if !ok {
				panic(unsupported("mkseq with unknown function"))
			}
			fv := m.closureBindings(st, f, cfn)
			snap := st
			return &SeqV{N: n, At: func(i *Term) *Term { return m.pureCall(snap, cfn, []Value{i}, fv)[0].(*Term) }}
		},
		"seqEq": func(m *Machine, st *State, fr *Frame, instr ssa.Instruction, fn *ssa.Function, args []Value) Value {
			a, b := args[0].(*SeqV), args[1].(*SeqV)
			if src := a.Src; src != nil && st.definable != nil && st.definable[src.Arr.id] {
				mk := m.ctx.Fresh("def", BoolSort)
				if st.defs == nil {
					st.defs = map[int]*seqDef{}
				}
				st.defs[mk.id] = &seqDef{marker: mk, a: a, b: b}
				return mk
			}
			return m.seqEqTerm(a, b)
		},
		"forall": func(m *Machine, st *State, fr *Frame, instr ssa.Instruction, fn *ssa.Function, args []Value) Value {
			return m.quant(st, args, true)
		},
		"exists": func(m *Machine, st *State, fr *Frame, instr ssa.Instruction, fn *ssa.Function, args []Value) Value {
			return m.quant(st, args, false)
		},
		"fresh": func(m *Machine, st *State, fr *Frame, instr ssa.Instruction, fn *ssa.Function, args []Value) Value {
			v, _ := m.rawArg(st, fr, instr, 0)
			var r *Term
			switch x := v.(type) {
			case *Ptr:
				r = x.Ref
			case *Slice:
				r = x.Arr
			case *Term:
				r = x
			default:
				panic(unsupported("fresh() of non-reference"))
			}
			since := m.entryFresh(st)
			if st.opaque != 0 {
				// a callee's clause, assumed at the call site: allocated during that call
				since = st.opaqueNfresh
			}
			return m.ctx.ILt(m.ctx.IntBig(new(big.Int).Add(freshBase, big.NewInt(int64(since)))), r)
		},
		"arrayOf": func(m *Machine, st *State, fr *Frame, instr ssa.Instruction, fn *ssa.Function, args []Value) Value {
			s := args[0].(*Slice)
			if m.mode == ModeBV {
				return m.ctx.App("ref2idx", BVSort(64), s.Arr)
			}
			return s.Arr
		},
		"evCount": func(m *Machine, st *State, fr *Frame, instr ssa.Instruction, fn *ssa.Function, args []Value) Value {
			if st.opaque != 0 {
				return m.ctx.App(fmt.Sprintf("calleeEvCount!%d!%s", st.opaque, constStringArg(instr, 0)), m.ts.Idx())
			}
			name := constStringArg(instr, 0)
			n := 0
			for _, e := range st.events[st.evBase:] {
				if e.Name == name {
					n++
				}
			}
			return m.ts.IdxConst(int64(n))
		},
		"evTotal": func(m *Machine, st *State, fr *Frame, instr ssa.Instruction, fn *ssa.Function, args []Value) Value {
			if st.opaque != 0 {
				return m.ctx.App(fmt.Sprintf("calleeEvTotal!%d", st.opaque), m.ts.Idx())
			}
			return m.ts.IdxConst(int64(len(st.events) - st.evBase))
		},
		"evHeld": func(m *Machine, st *State, fr *Frame, instr ssa.Instruction, fn *ssa.Function, args []Value) Value {
			// evHeld(name, k, &x.mu): the k-th event of that name happened while x.mu was held in write mode
			if st.opaque != 0 {
				// an observation about the callee's own trace: opaque to the caller
				return m.ctx.App(fmt.Sprintf("calleeEvHeld!%d!%s", st.opaque, constStringArg(instr, 0)), BoolSort, args[1].(*Term), args[2].(*Ptr).Ref)
			}
			e := m.findEvent(st, constStringArg(instr, 0), m.constIntArg(instr, 1, args[1]))
			if e == nil {
				return m.ctx.F
			}
			return m.ctx.Bool(e.Locks[lockKey(args[2].(*Ptr))] == 2)
		},
		"evIndex": func(m *Machine, st *State, fr *Frame, instr ssa.Instruction, fn *ssa.Function, args []Value) Value {
			if st.opaque != 0 {
				return m.ctx.App(fmt.Sprintf("calleeEvIndex!%d!%s", st.opaque, constStringArg(instr, 0)), m.ts.Idx(), args[1].(*Term))
			}
			name := constStringArg(instr, 0)
			k := m.constIntArg(instr, 1, args[1])
			n := 0
			for i, e := range st.events[st.evBase:] {
				if e.Name == name {
					if n == k {
						return m.ts.IdxConst(int64(i))
					}
					n++
				}
			}
			return m.ts.IdxConst(-1)
		},
		"evBytes": func(m *Machine, st *State, fr *Frame, instr ssa.Instruction, fn *ssa.Function, args []Value) Value {
			if st.opaque != 0 {
				nm := fmt.Sprintf("calleeEvBytes!%d!%s", st.opaque, constStringArg(instr, 0))
				k, a := args[1].(*Term), args[2].(*Term)
				return &SeqV{N: m.ctx.App(nm+".len", m.ts.Idx(), k, a), At: func(i *Term) *Term { return m.ctx.App(nm+".at", m.ts.ByteSort(), k, a, i) }}
			}
			e := m.findEvent(st, constStringArg(instr, 0), m.constIntArg(instr, 1, args[1]))
			if e == nil {
				return &SeqV{N: m.ts.IdxConst(-1), At: func(*Term) *Term { return m.ts.zeroOf(m.ts.ByteSort()) }}
			}
			s := e.Seqs[m.constIntArg(instr, 2, args[2])]
			if s == nil {
				panic(unsupported("evBytes: argument is not a byte slice"))
			}
			return s
		},
		"evSlice": func(m *Machine, st *State, fr *Frame, instr ssa.Instruction, fn *ssa.Function, args []Value) Value {
			if st.opaque != 0 {
				panic(unsupported("evSlice on a callee's invisible trace"))
			}
			e := m.findEvent(st, constStringArg(instr, 0), m.constIntArg(instr, 1, args[1]))
			if e == nil || e.Snaps[m.constIntArg(instr, 2, args[2])] == nil {
				m.problem("evSlice: no such event / slice argument: %s", constStringArg(instr, 0))
				return &SliceSnap{Len: m.ts.IdxConst(-1), Off: m.ts.IdxConst(0)}
			}
			return e.Snaps[m.constIntArg(instr, 2, args[2])]
		},
		"evArg": func(m *Machine, st *State, fr *Frame, instr ssa.Instruction, fn *ssa.Function, args []Value) Value {
			if st.opaque != 0 {
				return m.opaqueEvValue(st, fn, "calleeEvArg", constStringArg(instr, 0), args[1].(*Term), args[2].(*Term))
			}
			e := m.findEvent(st, constStringArg(instr, 0), m.constIntArg(instr, 1, args[1]))
			rt := fn.Signature.Results().At(0).Type()
			if e == nil {
				return m.ts.Zero(rt)
			}
			if ai := m.constIntArg(instr, 2, args[2]); ai < len(e.Args) && e.Args[ai] != nil {
				return e.Args[ai]
			}
			// the event has no such argument (e.g. a select with fewer cases than the clause expects):
			// an unconstrained value, so that the clause cannot be proved from it
			v := m.ts.FreshValue("noarg", rt)
			m.assumeWellFormed(st, rt, v)
			return v
		},
		"evRet": func(m *Machine, st *State, fr *Frame, instr ssa.Instruction, fn *ssa.Function, args []Value) Value {
			if st.opaque != 0 {
				return m.opaqueEvValue(st, fn, "calleeEvRet", constStringArg(instr, 0), args[1].(*Term), args[2].(*Term))
			}
			e := m.findEvent(st, constStringArg(instr, 0), m.constIntArg(instr, 1, args[1]))
			rt := fn.Signature.Results().At(0).Type()
			if e == nil {
				return m.ts.Zero(rt)
			}
			if ri := m.constIntArg(instr, 2, args[2]); ri < len(e.Rets) && e.Rets[ri] != nil {
				return e.Rets[ri]
			}
			v := m.ts.FreshValue("noret", rt)
			m.assumeWellFormed(st, rt, v)
			return v
		},
		"sameArray": func(m *Machine, st *State, fr *Frame, instr ssa.Instruction, fn *ssa.Function, args []Value) Value {
			return m.ctx.Eq(args[0].(*Slice).Arr, args[1].(*Slice).Arr)
		},
		"hasByte": func(m *Machine, st *State, fr *Frame, instr ssa.Instruction, fn *ssa.Function, args []Value) Value {
			return m.hasByteTerm(args[0].(*Str), args[1].(*Term))
		},
		"splitOf": func(m *Machine, st *State, fr *Frame, instr ssa.Instruction, fn *ssa.Function, args []Value) Value {
			return m.splitValue(st, args[0].(*Str), m.strConst("/"), types.Typ[types.String])
		},
		"mapSnap": func(m *Machine, st *State, fr *Frame, instr ssa.Instruction, fn *ssa.Function, args []Value) Value {
			return m.mapSnapOf(st, fn.Signature.Params().At(0).Type(), args[0].(*Term))
		},
		"guardSnap": func(m *Machine, st *State, fr *Frame, instr ssa.Instruction, fn *ssa.Function, args []Value) Value {
			t := fn.Signature.Params().At(0).Type()
			ref := args[0].(*Term)
			if st.opaque != 0 {
				_, mt := m.mapNames(t)
				ks := m.ts.Leaves(mt.Key())[0].sort
				ms := &MapSnap{Present: m.ctx.App(fmt.Sprintf("calleeGuardSnap!%d.present", st.opaque), ArrSort(ks, BoolSort), ref), Map: mt}
				for _, l := range m.ts.Leaves(mt.Elem()) {
					ms.Vals = append(ms.Vals, m.ctx.App(fmt.Sprintf("calleeGuardSnap!%d.val.%s", st.opaque, l.path), ArrSort(ks, l.sort), ref))
				}
				return ms
			}
			if gs, ok := st.guardSnaps[ref.id]; ok {
				return gs
			}
			return m.mapSnapOf(st, t, ref)
		},
		"snapHas": func(m *Machine, st *State, fr *Frame, instr ssa.Instruction, fn *ssa.Function, args []Value) Value {
			ms := args[0].(*MapSnap)
			return m.ctx.Select(ms.Present, args[1].(*Term))
		},
		"snapGet": func(m *Machine, st *State, fr *Frame, instr ssa.Instruction, fn *ssa.Function, args []Value) Value {
			ms := args[0].(*MapSnap)
			k := args[1].(*Term)
			present := m.ctx.Select(ms.Present, k)
			var terms []*Term
			for i, l := range m.ts.Leaves(ms.Map.Elem()) {
				terms = append(terms, m.ctx.Ite(present, m.ctx.Select(ms.Vals[i], k), m.ts.zeroOf(l.sort)))
			}
			return m.ts.Unflatten(ms.Map.Elem(), &terms)
		},
		"mapHas": func(m *Machine, st *State, fr *Frame, instr ssa.Instruction, fn *ssa.Function, args []Value) Value {
			t := fn.Signature.Params().At(0).Type()
			_, present := m.mapGet(st, t, args[0].(*Term), args[1].(*Term))
			return present
		},
		"validUTF8": func(m *Machine, st *State, fr *Frame, instr ssa.Instruction, fn *ssa.Function, args []Value) Value {
			s := args[0].(*Str)
			return m.ctx.App("validUTF8", BoolSort, s.Len, s.Arr)
		},
		"maxAlloc": func(m *Machine, st *State, fr *Frame, instr ssa.Instruction, fn *ssa.Function, args []Value) Value {
			if st.opaque != 0 {
				return m.ctx.App(fmt.Sprintf("calleeMaxAlloc!%d", st.opaque), m.ts.Idx())
			}
			mx := m.ts.IdxConst(0)
			for _, e := range st.events[st.evBase:] {
				if e.Name == "make" {
					sz := e.Args[0].(*Term)
					mx = m.ctx.Ite(m.idxLt(mx, sz), sz, mx)
				}
			}
			return mx
		},
		"forallKey": func(m *Machine, st *State, fr *Frame, instr ssa.Instruction, fn *ssa.Function, args []Value) Value {
			c := m.ctx
			f := args[0].(*Term)
			cfn, ok := m.closureCode(st, f)
			if !ok {
				panic(unsupported("forallKey with unknown function"))
			}
			fv := m.closureBindings(st, f, cfn)
			kt := cfn.Params[0].Type()
			ks := m.ts.Leaves(kt)[0].sort
			k := c.Bound("key", ks)
			base := len(st.pc)
			body := m.pureCall(st, cfn, []Value{k}, fv)[0].(*Term)
			var side []*Term
			kept := st.pc[:base:base]
			for _, p := range st.pc[base:] {
				if p.hasBound {
					side = append(side, p)
				} else {
					kept = append(kept, p)
				}
			}
			st.pc = kept
			if len(side) > 0 {
				body = c.Implies(c.And(side...), body)
			}
			if m.mode == ModeInt {
				if w, signed := m.isSigned(kt); w > 0 {
					lo, hi := intRange(w, signed)
					body = c.Implies(c.And(c.ILe(c.IntBig(lo), k), c.ILe(k, c.IntBig(hi))), body)
				}
			}
			return c.Forall([]*Term{k}, body)
		},
		"closureIs": func(m *Machine, st *State, fr *Frame, instr ssa.Instruction, fn *ssa.Function, args []Value) Value {
			f := args[0].(*Term)
			name := constStringArg(instr, 1)
			target := m.P.Funcs[name]
			if target == nil {
				m.problem("closureIs: function %q not found in the current tree", name)
				return m.ctx.F
			}
			target = m.canon(target)
			if cf, ok := m.closureCode(st, f); ok {
				if os.Getenv("GOVC_DEBUG") != "" {
					fmt.Fprintf(os.Stderr, "closureIs %q: code=%s (%p) target=%s (%p)\n", name, cf.String(), cf, target.String(), target)
				}
				return m.ctx.Bool(m.canon(cf) == m.canon(target))
			}
			a := m.heapGet(st, "clo.fn", ArrSort(IntSort, IntSort))
			return m.ctx.And(m.ctx.Neq(f, m.ctx.Int(0)), m.ctx.Eq(m.ctx.Select(a, f), m.fnCode(target)))
		},
		"closureVar": func(m *Machine, st *State, fr *Frame, instr ssa.Instruction, fn *ssa.Function, args []Value) Value {
			f := args[0].(*Term)
			name := constStringArg(instr, 1)
			idx := m.constIntArg(instr, 2, args[2])
			target := m.P.Funcs[name]
			rt := fn.Signature.Results().At(0).Type()
			if target == nil || idx >= len(target.FreeVars) {
				m.problem("closureVar: function %q / variable %d not found in the current tree", name, idx)
				return m.ts.Zero(rt)
			}
			if !types.Identical(target.FreeVars[idx].Type(), rt) {
				m.problem("closureVar: captured variable %d of %s has type %s, clause expects %s", idx, name, target.FreeVars[idx].Type(), rt)
				return m.ts.Zero(rt)
			}
			return m.closureBindings(st, f, target)[idx]
		},
		"holds": func(m *Machine, st *State, fr *Frame, instr ssa.Instruction, fn *ssa.Function, args []Value) Value {
			return m.holdsGhost(st, args[0].(*Ptr), 2)
		},
		"holdsR": func(m *Machine, st *State, fr *Frame, instr ssa.Instruction, fn *ssa.Function, args []Value) Value {
			return m.holdsGhost(st, args[0].(*Ptr), 1)
		},
		"sameMap": func(m *Machine, st *State, fr *Frame, instr ssa.Instruction, fn *ssa.Function, args []Value) Value {
			return m.ctx.Eq(args[0].(*Term), args[1].(*Term))
		},
		"closureCaptures": func(m *Machine, st *State, fr *Frame, instr ssa.Instruction, fn *ssa.Function, args []Value) Value {
			f := args[0].(*Term)
			name := constStringArg(instr, 1)
			target := m.P.Funcs[name]
			want, ok := args[2].(*Ptr)
			if target == nil || !ok {
				m.problem("closureCaptures: function %q not found in the current tree", name)
				return m.ctx.F
			}
			var alts []*Term
			for i, b := range m.closureBindings(st, f, target) {
				cell, isPtr := b.(*Ptr)
				if !isPtr {
					continue
				}
				pt, isPP := target.FreeVars[i].Type().(*types.Pointer)
				if !isPP || !types.Identical(pt.Elem(), types.NewPointer(want.Elem)) {
					continue
				}
				if v, isP := m.Load(st, cell).(*Ptr); isP {
					alts = append(alts, m.ctx.Eq(v.Ref, want.Ref))
				}
			}
			if len(alts) == 0 {
				return m.ctx.F
			}
			return m.ctx.Or(alts...)
		},
		"closureVarN": func(m *Machine, st *State, fr *Frame, instr ssa.Instruction, fn *ssa.Function, args []Value) Value {
			f := args[0].(*Term)
			name := constStringArg(instr, 1)
			vname := constStringArg(instr, 2)
			target := m.P.Funcs[name]
			rt := fn.Signature.Results().At(0).Type()
			idx := -1
			if target != nil {
				for i, fv := range target.FreeVars {
					if fv.Name() == vname {
						idx = i
					}
				}
			}
			if idx < 0 {
				m.problem("closureVarN: function %q / captured variable %q not found in the current tree", name, vname)
				return m.ts.Zero(rt)
			}
			if !types.Identical(target.FreeVars[idx].Type(), rt) {
				m.problem("closureVarN: captured variable %s of %s has type %s, clause expects %s", vname, name, target.FreeVars[idx].Type(), rt)
				return m.ts.Zero(rt)
			}
			return m.closureBindings(st, f, target)[idx]
		},
		"sameFunc": func(m *Machine, st *State, fr *Frame, instr ssa.Instruction, fn *ssa.Function, args []Value) Value {
			return m.ctx.Eq(args[0].(*Term), args[1].(*Term))
		},
		"sameSlice": func(m *Machine, st *State, fr *Frame, instr ssa.Instruction, fn *ssa.Function, args []Value) Value {
			a, b := args[0].(*Slice), args[1].(*Slice)
			return m.ctx.And(m.ctx.Eq(a.Arr, b.Arr), m.ctx.Eq(a.Off, b.Off), m.ctx.Eq(a.Len, b.Len))
		},
		"guardVal": func(m *Machine, st *State, fr *Frame, instr ssa.Instruction, fn *ssa.Function, args []Value) Value {
			p := args[0].(*Ptr)
			if st.opaque != 0 {
				return m.opaqueEvValue(st, fn, "calleeGuardVal", p.Mem+"."+p.Path, p.Ref, m.ctx.Int(0))
			}
			if v, ok := st.guardVals[fmt.Sprintf("%d/%s", p.Ref.id, p.Path)]; ok {
				return v
			}
			return m.Load(st, p)
		},
		"guardSlice": func(m *Machine, st *State, fr *Frame, instr ssa.Instruction, fn *ssa.Function, args []Value) Value {
			p := args[0].(*Ptr)
			if v, ok := st.guardVals[fmt.Sprintf("%d/%s/snap", p.Ref.id, p.Path)]; ok && st.opaque == 0 {
				return v
			}
			sl := m.Load(st, p).(*Slice)
			ss := &SliceSnap{Len: sl.Len, Off: sl.Off, Elem: sl.Elem}
			for _, l := range m.ts.Leaves(sl.Elem) {
				if st.opaque != 0 {
					ss.Arrs = append(ss.Arrs, m.ctx.Fresh("calleeGuardSlice", ArrSort(m.ts.Idx(), l.sort)))
				} else {
					ss.Arrs = append(ss.Arrs, m.elemArr(st, sl.Elem, sl.Arr, l))
				}
			}
			if st.opaque != 0 {
				ss.Len = m.ctx.Fresh("calleeGuardSliceLen", m.ts.Idx())
				ss.Off = m.ts.IdxConst(0)
			}
			return ss
		},
		"onceDone": func(m *Machine, st *State, fr *Frame, instr ssa.Instruction, fn *ssa.Function, args []Value) Value {
			a := m.heapGet(st, "once.done", ArrSort(IntSort, BoolSort))
			return m.ctx.Select(a, m.onceKey(args[0].(*Ptr)))
		},
		"ownsChan": func(m *Machine, st *State, fr *Frame, instr ssa.Instruction, fn *ssa.Function, args []Value) Value {
			ch := args[0].(*Term)
			switch {
			case m.assumingPre:
				m.ownedChans[ch.id] = true
				m.trusted["ownsChan: the spawner created the channel, handed it to this goroutine alone and never closes it (checked at the go statement)"] = true
				return m.ctx.T
			case m.spawnLocal != nil:
				ok := m.spawnLocal[ch.id]
				m.transferred[ch.id] = true
				return m.ctx.Bool(ok)
			}
			return m.ctx.Bool(m.isLocalRef(st, ch) || m.ownedChans[ch.id])
		},
		"chanCap": func(m *Machine, st *State, fr *Frame, instr ssa.Instruction, fn *ssa.Function, args []Value) Value {
			return m.ctx.App("chanCapOf", IntSort, args[0].(*Term))
		},
		"iterFresh": func(m *Machine, st *State, fr *Frame, instr ssa.Instruction, fn *ssa.Function, args []Value) Value {
			return m.iterFreshTerm(st, args[0])
		},
		"iterFreshArr": func(m *Machine, st *State, fr *Frame, instr ssa.Instruction, fn *ssa.Function, args []Value) Value {
			return m.iterFreshTerm(st, args[0])
		},
		"closed": func(m *Machine, st *State, fr *Frame, instr ssa.Instruction, fn *ssa.Function, args []Value) Value {
			return m.chanClosed(st, args[0].(*Term))
		},
		"ite": func(m *Machine, st *State, fr *Frame, instr ssa.Instruction, fn *ssa.Function, args []Value) Value {
			// no branching: both alternatives are values already
			return m.mergeValue(args[0].(*Term), args[1], args[2])
		},
		"sliceSnap": func(m *Machine, st *State, fr *Frame, instr ssa.Instruction, fn *ssa.Function, args []Value) Value {
			sl := args[0].(*Slice)
			ss := &SliceSnap{Len: sl.Len, Off: sl.Off, Elem: sl.Elem}
			for _, l := range m.ts.Leaves(sl.Elem) {
				ss.Arrs = append(ss.Arrs, m.elemArr(st, sl.Elem, sl.Arr, l))
			}
			return ss
		},
		"ssLen": func(m *Machine, st *State, fr *Frame, instr ssa.Instruction, fn *ssa.Function, args []Value) Value {
			return args[0].(*SliceSnap).Len
		},
		"ssAt": func(m *Machine, st *State, fr *Frame, instr ssa.Instruction, fn *ssa.Function, args []Value) Value {
			ss := args[0].(*SliceSnap)
			i := args[1].(*Term)
			var terms []*Term
			for k := range m.ts.Leaves(ss.Elem) {
				terms = append(terms, m.ctx.Select(ss.Arrs[k], m.idxAdd(ss.Off, i)))
			}
			v := m.ts.Unflatten(ss.Elem, &terms)
			m.assumeWellFormed(st, ss.Elem, v)
			return v
		},
		"forallGrid": func(m *Machine, st *State, fr *Frame, instr ssa.Instruction, fn *ssa.Function, args []Value) Value {
			c := m.ctx
			n1, n2 := args[0].(*Term), args[1].(*Term)
			f := args[2].(*Term)
			cfn, ok := m.closureCode(st, f)
			if !ok {
				panic(unsupported("forallGrid with unknown function"))
			}
			fv := m.closureBindings(st, f, cfn)
			z := m.ts.IdxConst(0)
			if m.refute {
				four := m.ts.IdxConst(4)
				st.assume(c.And(m.idxLe(n1, four), m.idxLe(n2, four)))
				var parts []*Term
				for a := int64(0); a < 4; a++ {
					for b := int64(0); b < 4; b++ {
						ia, ib := m.ts.IdxConst(a), m.ts.IdxConst(b)
						body := m.pureCall(st, cfn, []Value{ia, ib}, fv)[0].(*Term)
						parts = append(parts, c.Implies(c.And(m.idxLt(ia, n1), m.idxLt(ib, n2)), body))
					}
				}
				return c.And(parts...)
			}
			i := c.Bound("gi", m.ts.Idx())
			j := c.Bound("gj", m.ts.Idx())
			base := len(st.pc)
			body := m.pureCall(st, cfn, []Value{i, j}, fv)[0].(*Term)
			rng := c.And(m.idxLe(z, i), m.idxLt(i, n1), m.idxLe(z, j), m.idxLt(j, n2))
			var side []*Term
			kept := st.pc[:base:base]
			for _, p := range st.pc[base:] {
				if p.hasBound {
					side = append(side, p)
				} else {
					kept = append(kept, p)
				}
			}
			st.pc = kept
			if len(side) > 0 {
				a := c.And(side...)
				st.pc = append(st.pc, c.Forall([]*Term{i, j}, c.Implies(rng, a)))
				body = c.Implies(a, body)
			}
			return c.Forall([]*Term{i, j}, c.Implies(rng, body))
		},
		"forallPairs": func(m *Machine, st *State, fr *Frame, instr ssa.Instruction, fn *ssa.Function, args []Value) Value {
			c := m.ctx
			lo, hi := args[0].(*Term), args[1].(*Term)
			f := args[2].(*Term)
			cfn, ok := m.closureCode(st, f)
			if !ok {
				panic(unsupported("forallPairs with unknown function"))
			}
			fv := m.closureBindings(st, f, cfn)
			if m.refute {
				four := m.ts.IdxConst(4)
				st.assume(m.idxLe(m.idxSub(hi, lo), four))
				var parts []*Term
				for a := int64(0); a < 4; a++ {
					for b := int64(0); b < 4; b++ {
						if a == b {
							continue
						}
						ia, ib := m.idxAdd(lo, m.ts.IdxConst(a)), m.idxAdd(lo, m.ts.IdxConst(b))
						body := m.pureCall(st, cfn, []Value{ia, ib}, fv)[0].(*Term)
						parts = append(parts, c.Implies(c.And(m.idxLt(ia, hi), m.idxLt(ib, hi)), body))
					}
				}
				return c.And(parts...)
			}
			i := c.Bound("pi", m.ts.Idx())
			j := c.Bound("pj", m.ts.Idx())
			base := len(st.pc)
			body := m.pureCall(st, cfn, []Value{i, j}, fv)[0].(*Term)
			rng := c.And(m.idxLe(lo, i), m.idxLt(i, hi), m.idxLe(lo, j), m.idxLt(j, hi), c.Neq(i, j))
			var side []*Term
			kept := st.pc[:base:base]
			for _, p := range st.pc[base:] {
				if p.hasBound {
					side = append(side, p)
				} else {
					kept = append(kept, p)
				}
			}
			st.pc = kept
			if len(side) > 0 {
				a := c.And(side...)
				st.pc = append(st.pc, c.Forall([]*Term{i, j}, c.Implies(rng, a)))
				body = c.Implies(a, body)
			}
			return c.Forall([]*Term{i, j}, c.Implies(rng, body))
		},
		"ghostTrue": func(m *Machine, st *State, fr *Frame, instr ssa.Instruction, fn *ssa.Function, args []Value) Value {
			return m.ctx.T
		},
	}
}


// iterFreshTerm: the object (or backing array) was allocated after the current loop cut. Objects are
// numbered by a global, monotone allocation counter, so this is a comparison of reference numbers.
func (m *Machine) iterFreshTerm(st *State, v Value) *Term {
	if m.iterCut == nil {
		m.problem("iterFresh used outside a loop iter clause")
		return m.ctx.F
	}
	var ref *Term
	switch x := v.(type) {
	case *Ptr:
		ref = x.Ref
	case *Slice:
		ref = x.Arr
	default:
		panic(unsupported("iterFresh of non-reference"))
	}
	if m.isFreshAfter(st, ref, m.iterCut.freshAt) {
		return m.ctx.T
	}
	return m.ctx.ILt(m.ctx.IntBig(new(big.Int).Add(freshBase, big.NewInt(int64(m.iterCut.nfreshAt)))), ref)
}

func (m *Machine) entryFresh(st *State) int {
	if len(st.frames) == 0 {
		return 0
	}
	if fr := st.frames[0]; fr != nil && fr.entry != nil {
		if v, ok := fr.entry["$nfresh"]; ok {
			return int(v.(*Term).num.Int64())
		}
	}
	return 0
}

func (m *Machine) findEvent(st *State, name string, k int) *Event {
	n := 0
	for _, e := range st.events[st.evBase:] {
		if e.Name == name {
			if n == k {
				return e
			}
			n++
		}
	}
	return nil
}

func (m *Machine) seqCat(a, b *SeqV) *SeqV {
	c := m.ctx
	return &SeqV{N: m.idxAdd(a.N, b.N), At: func(i *Term) *Term {
		return c.Ite(m.idxLt(i, a.N), a.At(i), b.At(m.idxSub(i, a.N)))
	}}
}

func (m *Machine) quant(st *State, args []Value, universal bool) Value {
	c := m.ctx
	lo, hi := args[0].(*Term), args[1].(*Term)
	f := args[2].(*Term)
	cfn, ok := m.closureCode(st, f)
	if !ok {
		panic(unsupported("quantifier with unknown function"))
	}
	fv := m.closureBindings(st, f, cfn)
	if m.refute {
		// bounded refutation mode: expand the quantifier over at most 4 indices (and restrict the
		// search to such ranges) so that the query is quantifier-free and the solver returns a model
		four := m.ts.IdxConst(4)
		st.assume(m.idxLe(m.idxSub(hi, lo), four))
		var parts []*Term
		for j := int64(0); j < 4; j++ {
			idx := m.idxAdd(lo, m.ts.IdxConst(j))
			b := m.pureCall(st, cfn, []Value{idx}, fv)[0].(*Term)
			in := m.idxLt(idx, hi)
			if universal {
				parts = append(parts, c.Implies(in, b))
			} else {
				parts = append(parts, c.And(in, b))
			}
		}
		if universal {
			return c.And(parts...)
		}
		return c.Or(parts...)
	}
	i := c.Bound("k", m.ts.Idx())
	base := len(st.pc)
	body := m.pureCall(st, cfn, []Value{i}, fv)[0].(*Term)
	// representation facts learnt while evaluating the body mention the bound variable:
	// they are re-scoped under the quantifier (and kept as quantified facts).
	var side []*Term
	kept := st.pc[:base:base]
	for _, p := range st.pc[base:] {
		if p.hasBound {
			side = append(side, p)
		} else {
			kept = append(kept, p)
		}
	}
	st.pc = kept
	rng := c.And(m.idxLe(lo, i), m.idxLt(i, hi))
	if len(side) > 0 {
		a := c.And(side...)
		// facts about values read at index i hold for the indices the quantifier ranges over
		st.pc = append(st.pc, c.Forall([]*Term{i}, c.Implies(rng, a)))
		if universal {
			body = c.Implies(a, body)
		} else {
			body = c.And(a, body)
		}
	}
	if universal {
		return c.Forall([]*Term{i}, c.Implies(rng, body))
	}
	return c.Exists([]*Term{i}, c.And(rng, body))
}

// opaqueEvValue: an event observation inside a callee whose body is not visible at this call site.
func (m *Machine) opaqueEvValue(st *State, fn *ssa.Function, kind, name string, k, a *Term) Value {
	rt := fn.Signature.Results().At(0).Type()
	var terms []*Term
	for _, l := range m.ts.Leaves(rt) {
		terms = append(terms, m.ctx.App(fmt.Sprintf("%s!%d!%s.%s.%s", kind, st.opaque, name, l.path, l.sort), l.sort, k, a))
	}
	v := m.ts.Unflatten(rt, &terms)
	if p, ok := v.(*Ptr); ok {
		p.Opaque = true
	}
	return v
}

// ---------- recursive specification functions ("fuel 1") ----------

func (m *Machine) isRecursive(fn *ssa.Function) bool {
	if r, ok := m.recCache[fn]; ok {
		return r
	}
	rec := false
	for _, b := range fn.Blocks {
		for _, ins := range b.Instrs {
			if c, ok := ins.(ssa.CallInstruction); ok {
				if c.Common().StaticCallee() == fn {
					rec = true
				}
			}
		}
	}
	m.recCache[fn] = rec
	return rec
}

// recCall: a recursive spec function is an uninterpreted function of its arguments and of the
// memories it reads; its defining equation is instantiated once for every application that the
// verifier meets outside an unfolding (no matching loops, no reliance on solver induction).
func (m *Machine) recCall(st *State, fn *ssa.Function, args []Value) []Value {
	name := "rec." + fn.Name()
	// which memories does the body read? (dry run, cached)
	reads, ok := m.recReads[fn]
	if !ok {
		m.recReads[fn] = nil // guards against re-entry
		m.readTrack = map[string]bool{}
		m.recDepth[fn]++
		func() {
			defer func() { recover() }()
			sub := st.clone()
			sub.pure = true
			m.pureCallBody(sub, fn, args)
		}()
		m.recDepth[fn]--
		for n := range m.readTrack {
			reads = append(reads, n)
		}
		sort.Strings(reads)
		m.readTrack = nil
		m.recReads[fn] = reads
	}
	var key []*Term
	for i, a := range args {
		t := fn.Params[i].Type()
		if isSeqType(t) {
			panic(unsupported("recursive spec function with a ghost-typed parameter"))
		}
		key = append(key, m.ts.Flatten(t, a)...)
	}
	for _, n := range reads {
		if h, ok := st.heap[n]; ok {
			key = append(key, h)
		} else if srt, ok := m.memSortOf[n]; ok {
			key = append(key, m.heapGet(st, n, srt))
		}
	}
	rt := fn.Signature.Results().At(0).Type()
	var app Value
	var sv *SeqV
	if isSeqType(rt) {
		n := m.ctx.App(name+".len", m.ts.Idx(), key...)
		sv = &SeqV{N: n, At: func(i *Term) *Term { return m.ctx.App(name+".at", m.ts.ByteSort(), append(append([]*Term{}, key...), i)...) }}
		app = sv
	} else {
		var terms []*Term
		for _, l := range m.ts.Leaves(rt) {
			terms = append(terms, m.ctx.App(name+"."+l.path, l.sort, key...))
		}
		app = m.ts.Unflatten(rt, &terms)
	}
	if m.recDepth[fn] > 1 {
		return []Value{app} // fuel: the defining equation is unfolded to depth 2
	}
	// unfold once
	inst := fmt.Sprintf("%s|%v", name, termIDs(key))
	if st.recDone[inst] {
		return []Value{app}
	}
	nd := make(map[string]bool, len(st.recDone)+1)
	for k := range st.recDone {
		nd[k] = true
	}
	nd[inst] = true
	st.recDone = nd
	m.recDepth[fn]++
	body := m.pureCallBody(st, fn, args)[0]
	m.recDepth[fn]--
	c := m.ctx
	if sv != nil {
		b := body.(*SeqV)
		i := c.Bound("ru", m.ts.Idx())
		st.assume(c.And(c.Eq(sv.N, b.N), m.idxLe(m.ts.IdxConst(0), sv.N),
			c.Forall([]*Term{i}, c.Implies(m.inBounds(i, sv.N), c.Eq(sv.At(i), b.At(i))))))
	} else {
		at := m.ts.Flatten(rt, app)
		bt := m.ts.Flatten(rt, body)
		for k := range at {
			st.assume(c.Eq(at[k], bt[k]))
		}
	}
	return []Value{app}
}

func termIDs(ts []*Term) []int {
	out := make([]int, len(ts))
	for i, t := range ts {
		out[i] = t.id
	}
	return out
}

// pureCallBody evaluates the body of fn (without the recursion interception at this level).
func (m *Machine) pureCallBody(st *State, fn *ssa.Function, args []Value) []Value {
	m.bodyOf = fn
	defer func() { m.bodyOf = nil }()
	return m.pureCall(st, fn, args, nil)
}

func (m *Machine) onceKey(p *Ptr) *Term {
	if p.Path != "" || p.Idx != nil {
		panic(unsupported("sync.Once embedded in a struct or array"))
	}
	return p.Ref
}

func (m *Machine) holdsGhost(st *State, mu *Ptr, mode int) Value {
	k := lockKey(mu)
	if m.assumingPre {
		if st.locks[k] < mode {
			st.locks[k] = mode
		}
		return m.ctx.T
	}
	return m.ctx.Bool(st.locks[k] >= mode)
}
