package main

import (
	"crypto/sha1"
	"encoding/json"
	"fmt"
	"os"
	"os/exec"
	"path/filepath"
	"sort"
	"strings"
	"sync"
)

// runDeps: which callee clauses do the proofs of a property's obligations use? For every obligation tagged
// with the property, the facts assumed from callee contracts are named and an unsat core is requested. A
// callee clause that appears in a core, but does not carry the property's tag, is a gap in the tagging: a
// change that breaks that clause silently removes the ground under this property's proof while the
// property's own check stays green. Output: one JSON object; the tool tools/deptags.py turns it into tags.
func runDeps(repo, prop string, timeout int) int {
	if timeout == 0 {
		timeout = 20
	}
	P, err := LoadProgram(repo)
	if err != nil {
		fmt.Fprintln(os.Stderr, err)
		return 2
	}
	names := funcsForProperty(P.Contracts, prop)
	onlyProperty = prop
	trackOrigins = true
	reports := make([]*FuncReport, len(names))
	var wg sync.WaitGroup
	sem := make(chan struct{}, 16)
	for i, n := range names {
		wg.Add(1)
		go func(i int, n string) {
			defer wg.Done()
			sem <- struct{}{}
			reports[i] = verifyFunc(P, n)
			<-sem
		}(i, n)
	}
	wg.Wait()
	dir, _ := os.MkdirTemp("", "govc-deps-")
	defer os.RemoveAll(dir)
	type res struct {
		used  map[string]bool
		note  string
	}
	var obls []*Obligation
	for _, r := range reports {
		for _, o := range r.Obls {
			if hasTag(o.Tags, prop) && !o.Cover && o.Alts == nil && o.Status == "" && !strings.HasPrefix(o.Kind, "safe.") && !strings.HasPrefix(o.Kind, "guard") && !strings.HasPrefix(o.Kind, "ovf") {
				obls = append(obls, o)
			}
		}
	}
	results := make([]res, len(obls))
	ch := make(chan int)
	var wg2 sync.WaitGroup
	for w := 0; w < 16; w++ {
		wg2.Add(1)
		go func() {
			defer wg2.Done()
			for i := range ch {
				o := obls[i]
				used := map[string]bool{}
				for _, d := range o.DefDeps {
					used[d] = true
				}
				hasOrigin := false
				for _, pc := range o.PC {
					if len(o.origins[pc.id]) > 0 {
						hasOrigin = true
					}
				}
				note := ""
				if hasOrigin {
					mu := ctxLock(o.ctx)
					mu.Lock()
					script, byName, quant := o.coreScript()
					mu.Unlock()
					h := sha1.Sum([]byte(o.Hash))
					f := filepath.Join(dir, fmt.Sprintf("%x.smt2", h[:8]))
					os.WriteFile(f, []byte(script), 0o644)
					out, _ := exec.Command("z3-new", fmt.Sprintf("-T:%d", timeout), f).CombinedOutput()
					os.Remove(f)
					lines := strings.SplitN(strings.TrimSpace(string(out)), "\n", 2)
					if len(lines) == 2 && strings.TrimSpace(lines[0]) == "unsat" {
						core := strings.Fields(strings.Trim(strings.TrimSpace(lines[1]), "()"))
						inst := false
						for _, c := range core {
							if strings.HasPrefix(c, "inst_") {
								inst = true
							}
							for _, og := range byName[c] {
								used[og] = true
							}
						}
						if inst {
							for _, og := range quant {
								used[og] = true
							}
						}
					} else {
						// no core (timeout, unknown, or a failing obligation): assume every callee clause on the path is used
						note = "no core: " + strings.TrimSpace(lines[0])
						for _, ogs := range byName {
							for _, og := range ogs {
								used[og] = true
							}
						}
					}
				}
				results[i] = res{used, note}
			}
		}()
	}
	for i := range obls {
		ch <- i
	}
	close(ch)
	wg2.Wait()
	// aggregate: callee clause -> the obligations of this property that use it
	type dep struct {
		Callee   string   `json:"callee"`
		Clause   int      `json:"clause_index"`
		Label    string   `json:"label"`
		Line     string   `json:"line"`
		Tags     []string `json:"tags"`
		HasTag   bool     `json:"has_tag"`
		UsedBy   []string `json:"used_by"`
	}
	agg := map[string]*dep{}
	nocore := 0
	for i, r := range results {
		if r.note != "" {
			nocore++
		}
		for og := range r.used {
			d := agg[og]
			if d == nil {
				parts := strings.Split(og, "|")
				var idx int
				fmt.Sscanf(parts[1], "%d", &idx)
				d = &dep{Callee: parts[0], Clause: idx}
				fc := P.Contracts.Funcs[parts[0]]
				if fc == nil {
					fc = P.Contracts.FnTypes[parts[0]]
				}
				if fc != nil && idx < len(fc.Ensures) {
					e := fc.Ensures[idx]
					d.Label = e.Label
					d.Line = e.Line
					d.Tags = e.Tags
					if len(d.Tags) == 0 {
						d.Tags = fc.Props
					}
					d.HasTag = hasTag(d.Tags, prop)
				}
				agg[og] = d
			}
			if len(d.UsedBy) < 6 {
				d.UsedBy = append(d.UsedBy, obls[i].Name)
			}
		}
	}
	var keys []string
	for k := range agg {
		keys = append(keys, k)
	}
	sort.Strings(keys)
	var deps []*dep
	for _, k := range keys {
		deps = append(deps, agg[k])
	}
	out := map[string]interface{}{"property": prop, "obligations": len(obls), "without_core": nocore, "deps": deps}
	b, _ := json.MarshalIndent(out, "", " ")
	fmt.Println(string(b))
	return 0
}
