package main

// Replay of solver counterexamples on the real code: the model's inputs are turned into Go
// literals, an in-package test calls the real function and evaluates the compiled clause,
// and the test is injected with `go test -overlay` (nothing is written into /repo).

import (
	"regexp"
	"encoding/json"
	"fmt"
	"go/types"
	"math/big"
	"os"
	"os/exec"
	"path/filepath"
	"strings"
	"time"

	"golang.org/x/tools/go/ssa"
)

const replayElems = 24

// inputLeavesDeep registers model-extraction terms for parameter `name` of type t.
func (m *Machine) inputLeavesDeep(st *State, name string, t types.Type, v Value, depth int) {
	if isSeqType(t) || depth > 3 {
		return
	}
	add := func(n string, x *Term) { m.inputs = append(m.inputs, namedTerm{n, x}) }
	switch x := v.(type) {
	case *Term:
		if x.sort.K != SArr {
			add(name, x)
		}
	case *Str:
		add(name+".len", x.Len)
		for i := 0; i < replayElems; i++ {
			add(fmt.Sprintf("%s[%d]", name, i), m.ctx.Select(x.Arr, m.ts.IdxConst(int64(i))))
		}
	case *Iface:
		add(name+".tag", x.Tag)
		add(name+".val", x.Val)
	case *Slice:
		add(name+".arr", x.Arr)
		add(name+".len", x.Len)
		add(name+".cap", x.Cap)
		n := replayElems
		if _, basic := x.Elem.Underlying().(*types.Basic); !basic {
			n = 4
		}
		for i := 0; i < n; i++ {
			p := &Ptr{Mem: m.ts.ElemMem(x.Elem), Ref: x.Arr, Idx: m.idxAdd(x.Off, m.ts.IdxConst(int64(i))), Elem: x.Elem}
			func() {
				defer func() { recover() }()
				ev := m.Load(st, p)
				m.inputLeavesDeep(st, fmt.Sprintf("%s[%d]", name, i), x.Elem, ev, depth+1)
			}()
		}
	case *Ptr:
		add(name, x.Ref)
		if x.Idx != nil || x.Path != "" {
			return
		}
		func() {
			defer func() { recover() }()
			pv := m.Load(st, x)
			m.inputLeavesDeep(st, name+"->", x.Elem, pv, depth+1)
		}()
	case *Tuple:
		if stt, ok := t.Underlying().(*types.Struct); ok {
			for i, e := range x.Elems {
				sep := "."
				if strings.HasSuffix(name, "->") {
					sep = ""
				}
				m.inputLeavesDeep(st, name+sep+stt.Field(i).Name(), stt.Field(i).Type(), e, depth)
			}
		}
	}
}

func parseNum(s string) (*big.Int, bool) {
	s = strings.TrimSpace(s)
	switch {
	case strings.HasPrefix(s, "#x"):
		v, ok := new(big.Int).SetString(s[2:], 16)
		return v, ok
	case strings.HasPrefix(s, "#b"):
		v, ok := new(big.Int).SetString(s[2:], 2)
		return v, ok
	case strings.HasPrefix(s, "(-"):
		inner := strings.TrimSpace(strings.TrimSuffix(strings.TrimPrefix(s, "(-"), ")"))
		v, ok := new(big.Int).SetString(inner, 10)
		if ok {
			v.Neg(v)
		}
		return v, ok
	case strings.HasPrefix(s, "(_ bv"):
		f := strings.Fields(s[5:])
		v, ok := new(big.Int).SetString(f[0], 10)
		return v, ok
	}
	v, ok := new(big.Int).SetString(s, 10)
	return v, ok
}

type litBuilder struct {
	model map[string]string
	tn    func(types.Type) string
	bv    bool
	pre   []string // statements executed before the call (allocation of big buffers)
	nvar  int
}

func (lb *litBuilder) num(name string, t types.Type) (*big.Int, bool) {
	s, ok := lb.model[name]
	if !ok {
		return nil, false
	}
	v, ok := parseNum(s)
	if !ok {
		return nil, false
	}
	if b, isB := t.Underlying().(*types.Basic); isB && lb.bv {
		if w, signed, okw := basicWidth(b); okw && signed && v.Bit(w-1) == 1 {
			v = new(big.Int).Sub(v, new(big.Int).Lsh(big.NewInt(1), uint(w)))
		}
	}
	return v, true
}

func (lb *litBuilder) idx(name string) (int64, bool) {
	s, ok := lb.model[name]
	if !ok {
		return 0, false
	}
	v, ok := parseNum(s)
	if !ok {
		return 0, false
	}
	if lb.bv && v.Bit(63) == 1 {
		v = new(big.Int).Sub(v, new(big.Int).Lsh(big.NewInt(1), 64))
	}
	if !v.IsInt64() {
		return 0, false
	}
	return v.Int64(), true
}

// lit builds a Go expression for the input called name.
func (lb *litBuilder) lit(name string, t types.Type, depth int) (string, bool) {
	switch u := t.Underlying().(type) {
	case *types.Basic:
		switch {
		case u.Info()&types.IsBoolean != 0:
			return lb.model[name], lb.model[name] == "true" || lb.model[name] == "false"
		case u.Info()&types.IsInteger != 0:
			v, ok := lb.num(name, t)
			if !ok {
				return "", false
			}
			return fmt.Sprintf("%s(%s)", lb.tn(t), v.String()), true
		case u.Info()&types.IsString != 0:
			n, ok := lb.idx(name + ".len")
			if !ok || n < 0 || n > 1<<26 {
				return "", false
			}
			var bs []string
			for i := int64(0); i < n && i < replayElems; i++ {
				v, ok := lb.num(fmt.Sprintf("%s[%d]", name, i), types.Typ[types.Uint8])
				if !ok {
					v = big.NewInt(97)
				}
				bs = append(bs, fmt.Sprint(new(big.Int).And(v, big.NewInt(255))))
			}
			if n <= replayElems {
				return fmt.Sprintf("%s(string([]byte{%s}))", lb.tn(t), strings.Join(bs, ", ")), true
			}
			return fmt.Sprintf("%s(string(append([]byte{%s}, make([]byte, %d)...)))", lb.tn(t), strings.Join(bs, ", "), n-int64(len(bs))), true
		}
	case *types.Slice:
		arr, ok := lb.num(name+".arr", types.Typ[types.Int64])
		if !ok {
			return "", false
		}
		if arr.Sign() == 0 {
			return fmt.Sprintf("%s(nil)", lb.tn(t)), true
		}
		n, ok1 := lb.idx(name + ".len")
		c, ok2 := lb.idx(name + ".cap")
		if !ok1 || !ok2 || n < 0 || n > 1<<26 {
			return "", false
		}
		if c > n+4096 {
			c = n + 4096
		}
		if c < n {
			c = n
		}
		lb.nvar++
		vn := fmt.Sprintf("sl%d", lb.nvar)
		lb.pre = append(lb.pre, fmt.Sprintf("%s := make(%s, %d, %d)", vn, lb.tn(t), n, c))
		lim := int64(replayElems)
		if _, basic := u.Elem().Underlying().(*types.Basic); !basic {
			lim = 4
		}
		for i := int64(0); i < n && i < lim; i++ {
			e, ok := lb.lit(fmt.Sprintf("%s[%d]", name, i), u.Elem(), depth+1)
			if ok {
				lb.pre = append(lb.pre, fmt.Sprintf("%s[%d] = %s", vn, i, e))
			}
		}
		return vn, true
	case *types.Pointer:
		r, ok := lb.num(name, types.Typ[types.Int64])
		if !ok {
			return "", false
		}
		if r.Sign() == 0 {
			return fmt.Sprintf("(%s)(nil)", lb.tn(t)), true
		}
		stt, isStruct := u.Elem().Underlying().(*types.Struct)
		if !isStruct && depth <= 3 {
			// pointer to a non-struct (e.g. *[]T): a variable holding the pointee
			e, ok := lb.lit(name+"->", u.Elem(), depth+1)
			if !ok {
				return "", false
			}
			lb.nvar++
			vn := fmt.Sprintf("pv%d", lb.nvar)
			lb.pre = append(lb.pre, fmt.Sprintf("var %s %s = %s", vn, lb.tn(u.Elem()), e))
			return "&" + vn, true
		}
		if !isStruct || depth > 3 {
			return "", false
		}
		body, ok := lb.structBody(name+"->", stt, depth+1)
		if !ok {
			return "", false
		}
		return fmt.Sprintf("&%s{%s}", lb.tn(u.Elem()), body), true
	case *types.Struct:
		sep := name + "."
		body, ok := lb.structBody(sep, u, depth)
		if !ok {
			return "", false
		}
		return fmt.Sprintf("%s{%s}", lb.tn(t), body), true
	case *types.Interface:
		if lb.tn(t) == "io.Reader" {
			// the bytes the reader delivers, in the order of the ReadFull calls on the failing path
			var bs []string
			for j := 0; ; j++ {
				n, ok := lb.idx(fmt.Sprintf("$stream[%d].len", j))
				if !ok {
					break
				}
				if n < 0 || n > 1<<20 {
					n = 8
				}
				for i := int64(0); i < n; i++ {
					v, ok := lb.num(fmt.Sprintf("$stream[%d][%d]", j, i), types.Typ[types.Uint8])
					if !ok {
						v = big.NewInt(0)
					}
					bs = append(bs, fmt.Sprint(new(big.Int).And(v, big.NewInt(255))))
				}
			}
			return fmt.Sprintf("verifBytesReader([]byte{%s})", strings.Join(bs, ", ")), true
		}
		tag, ok := lb.num(name+".tag", types.Typ[types.Int64])
		if ok && tag.Sign() == 0 {
			return "nil", true
		}
		return "", false
	}
	return "", false
}

func (lb *litBuilder) structBody(prefix string, stt *types.Struct, depth int) (string, bool) {
	var fs []string
	for i := 0; i < stt.NumFields(); i++ {
		f := stt.Field(i)
		if isOpaqueNamed(f.Type()) {
			continue
		}
		e, ok := lb.lit(prefix+f.Name(), f.Type(), depth)
		if !ok {
			// leave zero value for fields we cannot build (channels, funcs, ...)
			switch f.Type().Underlying().(type) {
			case *types.Chan, *types.Signature, *types.Map, *types.Interface, *types.Pointer:
				continue
			}
			return "", false
		}
		fs = append(fs, fmt.Sprintf("%s: %s", f.Name(), e))
	}
	return strings.Join(fs, ", "), true
}

// tryReplay attempts to confirm a failed obligation on the real code.
func tryReplay(P *Program, repo string, o *Obligation, scratch string) (bool, map[string]interface{}) {
	info := map[string]interface{}{}
	if o != nil && !strings.Contains(o.Name, "#inv.") {
		if fc := P.Contracts.Funcs[o.Func]; fc != nil && (hasInvariantLoops(fc) || o.Status != "sat") {
			// the model may describe a loop-head state: search for an entry-state model by bounded unrolling
			if r := refuteObligation(P, o, scratch); r != nil {
				info["input_search"] = "bounded refutation run (loops unrolled up to 12 iterations) found an entry input"
				o = r
			} else {
				info["status"] = "failing state is inside a loop cut and bounded unrolling found no entry input"
				return false, info
			}
		}
	}
	if o == nil || o.Status != "sat" || len(o.Model) == 0 {
		info["status"] = "no model (solver answered " + fmt.Sprint(o.Status) + ")"
		return false, info
	}
	fn := P.Funcs[o.Func]
	if fn == nil || len(fn.FreeVars) > 0 {
		info["status"] = "function is a closure or not found: replay not supported"
		return false, info
	}
	fc := P.Contracts.Funcs[o.Func]
	if strings.Contains(o.Name, "@") {
		info["status"] = "failure inside an inlined callee: replay not attempted"
		return false, info
	}
	tp := &typePrinter{pkg: P.Pkg.Types, imports: map[string]string{}}
	lb := &litBuilder{model: o.Model, tn: tp.str, bv: fc == nil || fc.Mode != "int"}
	var argNames []string
	var decls []string
	for i, p := range fn.Params {
		n := paramNameOf(fn, i)
		e, ok := lb.lit(n, p.Type(), 0)
		if !ok {
			info["status"] = fmt.Sprintf("cannot build a Go value for parameter %s (%s) from the model", n, p.Type())
			return false, info
		}
		decls = append(decls, fmt.Sprintf("var in_%s %s = %s", n, tp.str(p.Type()), e))
		argNames = append(argNames, "in_"+n)
	}
	var sb strings.Builder
	sb.WriteString("//go:build verif\n\npackage " + P.Pkg.Types.Name() + "\n\nimport (\n\t\"fmt\"\n\t\"testing\"\n")
	sb.WriteString("\t\"io\"\n\t\"runtime\"\n)\n\ntype verifReader struct{ b []byte }\n\nfunc (r *verifReader) Read(p []byte) (int, error) {\n\tif len(r.b) == 0 {\n\t\treturn 0, io.EOF\n\t}\n\tn := copy(p, r.b)\n\tr.b = r.b[n:]\n\treturn n, nil\n}\n\nfunc verifBytesReader(b []byte) io.Reader { return &verifReader{b} }\n\nfunc TestVerifReplay(t *testing.T) {\n")
	sb.WriteString("\tdefer func() {\n\t\tif r := recover(); r != nil {\n\t\t\tfmt.Printf(\"VERIF-REPLAY: PANIC %v\\n\", r)\n\t\t}\n\t}()\n")
	for _, p := range lb.pre {
		sb.WriteString("\t" + p + "\n")
	}
	for _, d := range decls {
		sb.WriteString("\t" + d + "\n")
	}
	// lets and requires
	letArgs := append([]string{}, argNames...)
	if fc != nil {
		for _, l := range fc.Lets {
			if l.FnName == "" {
				continue
			}
			sb.WriteString(fmt.Sprintf("\tlet_%s := %s(%s)\n\t_ = let_%s\n", l.Name, l.FnName, strings.Join(letArgs, ", "), l.Name))
			letArgs = append(letArgs, "let_"+l.Name)
		}
		reqs := fc.Requires
		if o.Kind == "reject" {
			// the reject clause replaces the preconditions
			reqs = nil
			for _, r := range fc.Rejects {
				if strings.HasSuffix(o.Name, "#reject."+r.Label) {
					reqs = append(reqs, r)
				}
			}
		}
		for _, r := range reqs {
			if r.FnName == "" {
				continue
			}
			sb.WriteString(fmt.Sprintf("\tif !%s(%s) {\n\t\tfmt.Println(\"VERIF-REPLAY: PRECONDITION-FALSE %s\")\n\t\treturn\n\t}\n", r.FnName, strings.Join(letArgs, ", "), r.FnName))
		}
	}
	// the call
	sb.WriteString("\tvar ms0, ms1 runtime.MemStats\n\truntime.ReadMemStats(&ms0)\n\tdefer func() {\n\t\truntime.ReadMemStats(&ms1)\n\t\tfmt.Printf(\"VERIF-REPLAY: ALLOC %d\\n\", ms1.TotalAlloc-ms0.TotalAlloc)\n\t}()\n")
	nres := fn.Signature.Results().Len()
	var resNames []string
	for i := 0; i < nres; i++ {
		resNames = append(resNames, fmt.Sprintf("res%d", i))
	}
	callee := fn.Name()
	callArgs := argNames
	if fn.Signature.Recv() != nil {
		callee = argNames[0] + "." + fn.Name()
		callArgs = argNames[1:]
	}
	ell := ""
	if fn.Signature.Variadic() {
		ell = "..."
	}
	call := fmt.Sprintf("%s(%s%s)", callee, strings.Join(callArgs, ", "), ell)
	if nres > 0 {
		sb.WriteString(fmt.Sprintf("\t%s := %s\n", strings.Join(resNames, ", "), call))
		for _, r := range resNames {
			sb.WriteString("\t_ = " + r + "\n")
		}
	} else {
		sb.WriteString("\t" + call + "\n")
	}
	sb.WriteString("\tfmt.Println(\"VERIF-REPLAY: RETURNED\")\n")
	expectClause := ""
	if o.Kind == "post" && fc != nil {
		// find the clause by description
		for i, e := range fc.Ensures {
			label := e.Label
			if label == "" {
				label = fmt.Sprint(i)
			}
			if strings.HasSuffix(o.Name, "#post."+label) && e.FnName != "" {
				if verifierOnly(fc, e) {
					// the Go versions of these builtins are stubs: evaluating the clause concretely would mean nothing
					info["clause_oracle"] = "the clause refers to the event trace or other verifier-only state; only a panic can confirm it concretely"
					continue
				}
				expectClause = e.FnName
				sb.WriteString(fmt.Sprintf("\tfmt.Printf(\"VERIF-REPLAY: CLAUSE %%v\\n\", %s(%s))\n", e.FnName, strings.Join(append(append([]string{}, letArgs...), resNames...), ", ")))
			}
		}
	}
	sb.WriteString("}\n")
	testSrc := sb.String()
	info["test_source"] = testSrc
	info["model_used"] = o.Model
	// run it
	ghost := filepath.Join(scratch, "zz_ghost.go")
	test := filepath.Join(scratch, "zz_replay_test.go")
	ov := filepath.Join(scratch, "overlay.json")
	os.WriteFile(ghost, []byte(P.GhostSrc), 0o644)
	os.WriteFile(test, []byte(testSrc), 0o644)
	ovj, _ := json.Marshal(map[string]interface{}{"Replace": map[string]string{
		filepath.Join(repo, ghostFileName):                ghost,
		filepath.Join(repo, "zz_verif_replay_test.go"): test,
	}})
	os.WriteFile(ov, ovj, 0o644)
	cmd := exec.Command("sh", "-c", "ulimit -v 12000000; exec go test -tags verif -overlay "+ov+" -v -vet=off -count=1 -timeout 60s -run '^TestVerifReplay$' .")
	cmd.Dir = repo
	cmd.Env = append(os.Environ(), "GOFLAGS=-mod=mod", "GOPROXY=off", "GOSUMDB=off", "GOTOOLCHAIN=local")
	done := make(chan struct{})
	var outb []byte
	go func() {
		outb, _ = cmd.CombinedOutput()
		close(done)
	}()
	select {
	case <-done:
	case <-time.After(120 * time.Second):
		if cmd.Process != nil {
			cmd.Process.Kill()
		}
		<-done
	}
	out := string(outb)
	info["test_output"] = truncate(out, 4000)
	confirmed := false
	switch {
	case strings.Contains(out, "VERIF-REPLAY: PRECONDITION-FALSE"):
		info["status"] = "model violates a precondition when run concretely (solver model is partial): not confirmed"
	case strings.HasPrefix(o.Kind, "safe") || strings.HasPrefix(o.Kind, "ovf"):
		if strings.Contains(out, "VERIF-REPLAY: PANIC") {
			confirmed = true
			info["status"] = "confirmed: the real function panics on the model's input"
		} else {
			info["status"] = "the real function did not panic on the model's input"
		}
	case o.Kind == "reject":
		if strings.Contains(out, "VERIF-REPLAY: RETURNED") {
			confirmed = true
			info["status"] = "confirmed: the real function returns normally on an input it must reject"
		} else {
			info["status"] = "the real function did not return normally on the model's input"
		}
	case o.Kind == "post" && strings.Contains(o.Desc, "maxAlloc()"):
		var n int64
		if i := strings.Index(out, "VERIF-REPLAY: ALLOC "); i >= 0 {
			fmt.Sscanf(out[i+len("VERIF-REPLAY: ALLOC "):], "%d", &n)
		}
		info["allocated_bytes"] = n
		if strings.Contains(out, "out of memory") || strings.Contains(out, "cannot allocate memory") {
			confirmed = true
			info["status"] = "confirmed: the real function tried to allocate more than the replay's memory limit for one packet"
		} else if n > 268435455+1<<20 {
			confirmed = true
			info["status"] = fmt.Sprintf("confirmed: the real function allocated %d bytes for one packet on the model's input", n)
		} else {
			info["status"] = "allocation on the model's input stayed within the bound"
		}
	case o.Kind == "post":
		if strings.Contains(out, "VERIF-REPLAY: CLAUSE false") {
			confirmed = true
			info["status"] = "confirmed: the real function returns and the clause " + expectClause + " evaluates to false on the model's input"
		} else if strings.Contains(out, "VERIF-REPLAY: PANIC") {
			confirmed = true
			info["status"] = "confirmed: the real function panics on the model's input"
		} else {
			info["status"] = "clause held (or could not be evaluated) on the model's input"
		}
	default:
		info["status"] = "obligation kind " + o.Kind + " has no concrete oracle: not confirmed"
	}
	return confirmed, info
}

var _ = ssa.NewProgram

var verifierOnlyRe = regexp.MustCompile(`\b(ev[A-Z]\w*|closed|ownsChan|chanCap|iterFresh\w*|onceDone|closure[A-Z]\w*|holds|holdsR|sameMap|sameFunc|fresh|arrayOf)\s*[\[(]`)

// verifierOnly: the clause (or a let it can see) uses a builtin whose Go version is a stub.
func verifierOnly(fc *FuncContract, c *Clause) bool {
	if verifierOnlyRe.MatchString(c.Raw) {
		return true
	}
	for _, l := range fc.Lets {
		if verifierOnlyRe.MatchString(l.Raw) && regexp.MustCompile(`\b` + regexp.QuoteMeta(l.Name) + `\b`).MatchString(c.Raw) {
			return true
		}
	}
	return false
}

func hasInvariantLoops(fc *FuncContract) bool {
	for _, l := range fc.Loops {
		if l.Unroll == 0 {
			return true
		}
	}
	return false
}

// refuteObligation re-runs the function with loops unrolled and looks for a satisfiable
// instance of the same obligation.
func refuteObligation(P *Program, o *Obligation, scratch string) *Obligation {
	rep := verifyFuncMode(P, o.Func, true)
	var cands []*Obligation
	for _, x := range rep.Obls {
		if x.Name == o.Name && x.Status == "" && !x.Cover {
			cands = append(cands, x)
		}
	}
	if len(cands) > 200 {
		cands = cands[:200]
	}
	solveAll(cands, scratch, 5, false, 0, 16)
	var best *Obligation
	for _, x := range cands {
		if x.Status == "sat" && len(x.Model) > 0 {
			if best == nil || len(x.PC) < len(best.PC) {
				best = x
			}
		}
	}
	return best
}
