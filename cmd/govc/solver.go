package main

import (
	"bytes"
	"context"
	"fmt"
	"os"
	"os/exec"
	"path/filepath"
	"strings"
	"sync"
	"time"
)

func newMutex() *sync.Mutex { return &sync.Mutex{} }

type solverSpec struct {
	name string
	args func(file string, timeoutS int) []string
}

var solvers = []solverSpec{
	{"z3-new", func(f string, t int) []string { return []string{"z3-new", fmt.Sprintf("-T:%d", t), f} }},
	{"z3", func(f string, t int) []string { return []string{"z3", fmt.Sprintf("-T:%d", t), f} }},
	{"cvc5", func(f string, t int) []string {
		return []string{"cvc5", "-q", "--incremental", fmt.Sprintf("--tlimit=%d", t*1000), f}
	}},
}

type solveResult struct {
	status string // unsat, sat, unknown
	solver string
	output string
	ms     int64
	all    map[string]string
}

// runSolvers races the installed solvers on script; if agree is set, waits for all of them.
func runSolvers(dir, base, script string, timeoutS int, agree bool, seed int) solveResult {
	file := filepath.Join(dir, base+".smt2")
	if err := os.WriteFile(file, []byte(script), 0o644); err != nil {
		return solveResult{status: "unknown", output: err.Error()}
	}
	ctx, cancel := context.WithTimeout(context.Background(), time.Duration(timeoutS+5)*time.Second)
	defer cancel()
	type one struct {
		name, status, out string
		ms           int64
	}
	ch := make(chan one, len(solvers))
	start := time.Now()
	for _, s := range solvers {
		s := s
		go func() {
			a := s.args(file, timeoutS)
			if seed != 0 {
				switch s.name {
				case "z3", "z3-new":
					a = append(a[:1], append([]string{fmt.Sprintf("smt.random_seed=%d", seed), fmt.Sprintf("sat.random_seed=%d", seed)}, a[1:]...)...)
				case "cvc5":
					a = append(a[:1], append([]string{fmt.Sprintf("--seed=%d", seed)}, a[1:]...)...)
				}
			}
			cmd := exec.CommandContext(ctx, a[0], a[1:]...)
			t0 := time.Now()
			defer func() {
				if os.Getenv("GOVC_TIMING") != "" {
					fmt.Fprintf(os.Stderr, "solver %s start+%dms ran %dms\n", s.name, t0.Sub(start).Milliseconds(), time.Since(t0).Milliseconds())
				}
			}()
			var out bytes.Buffer
			cmd.Stdout = &out
			cmd.Stderr = &out
			_ = cmd.Run()
			o := out.String()
			first := strings.TrimSpace(strings.SplitN(o, "\n", 2)[0])
			st := "unknown"
			switch first {
			case "unsat":
				st = "unsat"
			case "sat":
				st = "sat"
			}
			ch <- one{s.name, st, o, time.Since(start).Milliseconds()}
		}()
	}
	res := solveResult{status: "unknown", all: map[string]string{}}
	var outs []string
	var grace <-chan time.Time
	for i := 0; i < len(solvers); i++ {
		var r one
		select {
		case r = <-ch:
		case <-grace:
			// cross-check window over: the remaining solvers did not answer in time
			cancel()
			go func(n int) {
				for j := 0; j < n; j++ {
					<-ch
				}
			}(len(solvers) - i)
			return res
		}
		res.all[r.name] = r.status
		outs = append(outs, fmt.Sprintf("[%s] %s", r.name, strings.TrimSpace(truncate(r.out, 2000))))
		if r.status != "unknown" && res.status == "unknown" {
			res.status = r.status
			res.solver = r.name
			res.ms = r.ms
			res.output = r.out
			if agree && grace == nil {
				grace = time.After(8 * time.Second)
			}
			if !agree {
				cancel()
				// drain in background
				go func(n int) {
					for j := 0; j < n; j++ {
						<-ch
					}
				}(len(solvers) - i - 1)
				return res
			}
		}
	}
	if res.status == "unknown" {
		res.ms = time.Since(start).Milliseconds()
		res.output = strings.Join(outs, "\n")
	}
	return res
}

func truncate(s string, n int) string {
	if len(s) > n {
		return s[:n] + "…"
	}
	return s
}

// parseModel parses the (get-value ...) answer into term-string -> value-string, in order.
func parseValues(out string) []string {
	i := strings.Index(out, "(")
	if i < 0 {
		return nil
	}
	s := out[i:]
	// s is "((t1 v1) (t2 v2) ...)"; split top-level pairs
	var vals []string
	depth := 0
	start := -1
	for j := 0; j < len(s); j++ {
		switch s[j] {
		case '|':
			k := strings.IndexByte(s[j+1:], '|')
			if k >= 0 {
				j += k + 1
			}
		case '(':
			depth++
			if depth == 2 {
				start = j
			}
		case ')':
			if depth == 2 && start >= 0 {
				pair := s[start+1 : j]
				// value is the last s-expression of the pair
				vals = append(vals, lastSexp(pair))
				start = -1
			}
			depth--
			if depth == 0 {
				return vals
			}
		}
	}
	return vals
}

func lastSexp(s string) string {
	s = strings.TrimSpace(s)
	if strings.HasSuffix(s, ")") {
		depth := 0
		for j := len(s) - 1; j >= 0; j-- {
			switch s[j] {
			case ')':
				depth++
			case '(':
				depth--
				if depth == 0 {
					return s[j:]
				}
			}
		}
		return s
	}
	j := strings.LastIndexAny(s, " \t\n")
	return s[j+1:]
}
