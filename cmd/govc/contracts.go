package main

// Contract comment parser. Contracts live in comment-only files
// /repo/verif_contracts_*.go (build tag verif) as lines starting with //@ or // @.

import (
	"fmt"
	"go/ast"
	"regexp"
	"strconv"
	"strings"
)

type Clause struct {
	Kind   string   // requires, ensures, invariant, let, assigns, iter
	Tags   []string // property ids
	Label  string
	Expr   string // Go expression (after ==> rewriting)
	Ante   string // antecedent of a top-level implication (vacuity check)
	AnteFn string
	Raw    string
	Name   string // let: variable name
	Type   string // let: Go type
	Loop   int    // loop ordinal (1-based) for loop clauses, 0 otherwise
	Line   string // file:line of the clause
	FnName string // generated ghost function name
	Params []ghostParam
}

type LoopSpec struct {
	Ord        int
	Unroll     int // >0: unroll with unwinding assertion
	Invariants []*Clause
	Iters      []*Clause
	Exits      []*Clause // evaluated when control leaves the loop (break / normal exit)
	Lets       []*Clause
	IterLets   []*Clause // evaluated at the start of every iteration (after the loop cut)
	EndLets    []*Clause // evaluated at the end of every iteration / at loop exit, before the iter / exit clauses
	Assigns    []string
	Tags       []string
}

type FuncContract struct {
	Name     string // ssa RelString name: remainingLength, (*pktPublish).Pack, publishImpl$1
	Mode     string // bv | int
	Props    []string
	Inline   bool
	Trusted  bool // contract assumed, body not verified (external / out of reach); listed in evidence
	Pure     bool // no heap effects; callers keep their heap
	ParamNames []string // names the clauses use for the parameters (receiver first), by position; survives a renaming in the code
	Requires []*Clause
	Rejects  []*Clause // inputs for which the function must not return normally (checked in a separate pass)
	Relies   []*Clause // rely conditions on lock-guarded state, assumed after every lock acquisition
	OvfWrap  bool      // int mode: signed arithmetic wraps (Go semantics) instead of raising an overflow obligation
	Ensures  []*Clause
	Lets     []*Clause
	Assigns  []string // pointer expressions; nil = unspecified (conservative), ["nothing"]
	HasAssigns bool
	Loops    map[int]*LoopSpec
	Shape    string
	SafeTags []string
	Line     string
	Notes    []string
	Events   bool
	FreshResult bool
	MaxPaths int
	Role     string // goroutine role this function runs in (guard ... role r)
	Phase    string // life-cycle phase in which the function is called (guard ... readphase p); an assumption, listed in the evidence
}

type Lemma struct {
	Name   string
	Tags   []string
	Vars   []ghostParam
	Expr   string
	Mode   string
	FnName string
	Line   string
}

type Contracts struct {
	Funcs    map[string]*FuncContract
	Order    []string
	SpecCode []string // raw Go source blocks
	Lemmas   []*Lemma
	Guards   []GuardDecl
	Broken   map[string][]string // function -> clauses of its contract that do not resolve against the current tree
	Shared   []string    // struct types all of whose fields must be classified by a guard declaration (C10)
	GuardCalls []GuardDecl // Field = T.f, Kind = method name, Arg = lock: calling that method on the interface stored in T.f requires the lock
	Closers  map[string]string // Type.field -> function that alone closes the channel stored there
	ChanInv  map[string]string // element type -> "nonnil neverclosed"
	FnTypes  map[string]*FuncContract
}

type GuardDecl struct {
	Field string // e.g. BaseClient.handler
	Kind  string // by <mu> | atomic | role <r> | init
	Arg   string
	Line  string
}

type ghostParam struct {
	Name, Type string
}

var tagRe = regexp.MustCompile(`^(\w+)\[([A-Za-z0-9_, ]+)\]\s*(.*)$`)

func splitTags(s string) []string {
	var out []string
	for _, t := range strings.FieldsFunc(s, func(r rune) bool { return r == ',' || r == ' ' }) {
		if t != "" {
			out = append(out, t)
		}
	}
	return out
}

var keywords = map[string]bool{"func": true, "mode": true, "props": true, "inline": true, "requires": true, "relies": true, "rejects": true, "ovfwrap": true, "let": true,
	"assigns": true, "ensures": true, "loop": true, "spec": true, "end": true, "lemma": true, "fntype": true,
	"guard": true, "guardcall": true, "shared": true, "role": true, "phase": true, "chan": true, "closer": true, "trusted": true, "safe": true, "shape": true, "params": true, "note": true, "pure": true, "events": true, "freshresult": true, "maxpaths": true}

// contractLines extracts the //@ lines of a file together with positions.
func contractLines(fset interface{ PositionString(p ast.Node) string }, f *ast.File, posOf func(*ast.Comment) string) (lines []string, poss []string) {
	for _, cg := range f.Comments {
		for _, c := range cg.List {
			t := c.Text
			var body string
			switch {
			case strings.HasPrefix(t, "//@"):
				body = t[3:]
			case strings.HasPrefix(t, "// @"):
				body = t[4:]
			default:
				continue
			}
			lines = append(lines, body)
			poss = append(poss, posOf(c))
		}
	}
	return
}

func ParseContracts(lines, poss []string) (*Contracts, error) {
	cs := &Contracts{Funcs: map[string]*FuncContract{}, FnTypes: map[string]*FuncContract{}}
	var cur *FuncContract
	var lastClause *Clause
	var lastLemma *Lemma
	inSpec := false
	var specBuf []string
	for i := 0; i < len(lines); i++ {
		raw := lines[i]
		pos := poss[i]
		if inSpec {
			if strings.TrimSpace(raw) == "end" {
				inSpec = false
				cs.SpecCode = append(cs.SpecCode, strings.Join(specBuf, "\n"))
				specBuf = nil
				continue
			}
			specBuf = append(specBuf, strings.TrimPrefix(raw, " "))
			continue
		}
		line := strings.TrimSpace(raw)
		if line == "" {
			continue
		}
		if strings.HasPrefix(line, "#") {
			continue // comment inside contract file
		}
		// strip tag for keyword detection
		first := line
		if j := strings.IndexAny(line, " \t["); j >= 0 {
			first = line[:j]
		}
		if !keywords[first] {
			// continuation of previous clause
			if lastClause != nil {
				lastClause.Raw += " " + line
				continue
			}
			if lastLemma != nil {
				lastLemma.Expr += " " + line
				continue
			}
			return nil, fmt.Errorf("%s: unexpected contract line %q", pos, line)
		}
		rest := strings.TrimSpace(line[len(first):])
		var tags []string
		if strings.HasPrefix(rest, "[") {
			j := strings.Index(rest, "]")
			if j < 0 {
				return nil, fmt.Errorf("%s: unterminated tag list", pos)
			}
			tags = splitTags(rest[1:j])
			rest = strings.TrimSpace(rest[j+1:])
		}
		lastClause = nil
		lastLemma = nil
		switch first {
		case "spec":
			inSpec = true
		case "func", "fntype", "trusted":
			if first == "trusted" && !strings.HasPrefix(rest, "func ") {
				if cur == nil {
					return nil, fmt.Errorf("%s: trusted outside func", pos)
				}
				cur.Trusted = true
				continue
			}
			name := rest
			if first == "trusted" {
				name = strings.TrimSpace(strings.TrimPrefix(rest, "func "))
			}
			cur = &FuncContract{Name: name, Loops: map[int]*LoopSpec{}, Line: pos, Trusted: first == "trusted"}
			if first == "fntype" {
				cs.FnTypes[name] = cur
			} else {
				if _, dup := cs.Funcs[name]; dup {
					return nil, fmt.Errorf("%s: duplicate contract for %s", pos, name)
				}
				cs.Funcs[name] = cur
				cs.Order = append(cs.Order, name)
			}
		case "lemma":
			// lemma name[tags] forall x T, y U :: expr   (tags may also directly follow keyword)
			m := regexp.MustCompile(`^(\w+)(?:\[([^\]]*)\])?\s*(?:mode\s+(\w+)\s+)?forall\s+(.*?)::\s*(.*)$`).FindStringSubmatch(rest)
			if m == nil {
				return nil, fmt.Errorf("%s: malformed lemma", pos)
			}
			lm := &Lemma{Name: m[1], Tags: append(tags, splitTags(m[2])...), Mode: m[3], Expr: m[5], Line: pos}
			if lm.Mode == "" {
				lm.Mode = "bv"
			}
			for _, v := range strings.Split(m[4], ",") {
				f := strings.Fields(v)
				if len(f) != 2 {
					return nil, fmt.Errorf("%s: malformed lemma variable %q", pos, v)
				}
				lm.Vars = append(lm.Vars, ghostParam{f[0], f[1]})
			}
			cs.Lemmas = append(cs.Lemmas, lm)
			lastLemma = lm
			cur = nil
		case "closer":
			f := strings.Fields(rest)
			if len(f) != 2 {
				return nil, fmt.Errorf("%s: malformed closer declaration (closer Type.field function)", pos)
			}
			if cs.Closers == nil {
				cs.Closers = map[string]string{}
			}
			cs.Closers[f[0]] = f[1]
			cur = nil
		case "chan":
			f := strings.Fields(rest)
			if len(f) < 2 {
				return nil, fmt.Errorf("%s: malformed chan declaration", pos)
			}
			if cs.ChanInv == nil {
				cs.ChanInv = map[string]string{}
			}
			cs.ChanInv[f[0]] = strings.Join(f[1:], " ")
			cur = nil
		case "shared":
			cs.Shared = append(cs.Shared, strings.Fields(rest)...)
			cur = nil
		case "guardcall":
			f := strings.Fields(rest)
			if len(f) != 4 || f[2] != "by" {
				return nil, fmt.Errorf("%s: malformed guardcall (want: guardcall T.f Method by mu)", pos)
			}
			cs.GuardCalls = append(cs.GuardCalls, GuardDecl{Field: f[0], Kind: f[1], Arg: f[3], Line: pos})
			cur = nil
		case "guard":
			f := strings.Fields(rest)
			if len(f) < 2 {
				return nil, fmt.Errorf("%s: malformed guard", pos)
			}
			g := GuardDecl{Field: f[0], Kind: f[1], Line: pos}
			if len(f) > 2 {
				g.Arg = strings.Join(f[2:], " ")
			}
			cs.Guards = append(cs.Guards, g)
		default:
			if cur == nil {
				return nil, fmt.Errorf("%s: clause %q outside func", pos, first)
			}
			switch first {
			case "mode":
				cur.Mode = rest
			case "props":
				cur.Props = splitTags(rest)
			case "safe":
				cur.SafeTags = splitTags(rest)
			case "role":
				cur.Role = strings.TrimSpace(rest)
			case "phase":
				cur.Phase = strings.TrimSpace(rest)
			case "inline":
				cur.Inline = true
			case "pure":
				cur.Pure = true
			case "events":
				cur.Events = true
			case "freshresult":
				cur.FreshResult = true
			case "maxpaths":
				cur.MaxPaths, _ = strconv.Atoi(rest)
			case "shape":
				cur.Shape = rest
			case "params":
				cur.ParamNames = strings.Fields(rest)
			case "note":
				cur.Notes = append(cur.Notes, rest)
			case "assigns":
				cur.HasAssigns = true
				for _, a := range strings.Split(rest, ";") {
					a = strings.TrimSpace(a)
					if a != "" && a != "nothing" {
						cur.Assigns = append(cur.Assigns, a)
					}
				}
			case "ovfwrap":
				cur.OvfWrap = true
			case "requires", "ensures", "relies", "rejects":
				c := &Clause{Kind: first, Tags: tags, Raw: rest, Line: pos}
				switch first {
				case "requires":
					cur.Requires = append(cur.Requires, c)
				case "relies":
					cur.Relies = append(cur.Relies, c)
				case "rejects":
					cur.Rejects = append(cur.Rejects, c)
				default:
					cur.Ensures = append(cur.Ensures, c)
				}
				lastClause = c
			case "let":
				m := regexp.MustCompile(`^(\w+)\s+(.+?)\s*=\s*(.*)$`).FindStringSubmatch(rest)
				if m == nil {
					return nil, fmt.Errorf("%s: malformed let (want: let name Type = expr)", pos)
				}
				c := &Clause{Kind: "let", Name: m[1], Type: m[2], Raw: m[3], Line: pos}
				cur.Lets = append(cur.Lets, c)
				lastClause = c
			case "loop":
				f := strings.Fields(rest)
				if len(f) < 2 {
					return nil, fmt.Errorf("%s: malformed loop clause", pos)
				}
				ord, err := strconv.Atoi(f[0])
				if err != nil {
					return nil, fmt.Errorf("%s: loop ordinal: %v", pos, err)
				}
				ls := cur.Loops[ord]
				if ls == nil {
					ls = &LoopSpec{Ord: ord}
					cur.Loops[ord] = ls
				}
				sub := f[1]
				if j := strings.Index(sub, "["); j >= 0 {
					sub = sub[:j]
				}
				subrest := strings.TrimSpace(rest[strings.Index(rest, sub)+len(sub):])
				var ltags []string
				if strings.HasPrefix(subrest, "[") {
					j := strings.Index(subrest, "]")
					ltags = splitTags(subrest[1:j])
					subrest = strings.TrimSpace(subrest[j+1:])
				}
				switch sub {
				case "unroll":
					ls.Unroll, err = strconv.Atoi(subrest)
					if err != nil {
						return nil, fmt.Errorf("%s: unroll count: %v", pos, err)
					}
				case "invariant":
					c := &Clause{Kind: "invariant", Tags: ltags, Raw: subrest, Loop: ord, Line: pos}
					ls.Invariants = append(ls.Invariants, c)
					lastClause = c
				case "iter":
					c := &Clause{Kind: "iter", Tags: ltags, Raw: subrest, Loop: ord, Line: pos}
					ls.Iters = append(ls.Iters, c)
					lastClause = c
				case "exit":
					c := &Clause{Kind: "iter", Tags: ltags, Raw: subrest, Loop: ord, Line: pos}
					ls.Exits = append(ls.Exits, c)
					lastClause = c
				case "let", "iterlet", "iterend":
					m := regexp.MustCompile(`^(\w+)\s+(.+?)\s*=\s*(.*)$`).FindStringSubmatch(subrest)
					if m == nil {
						return nil, fmt.Errorf("%s: malformed loop let", pos)
					}
					c := &Clause{Kind: "let", Name: m[1], Type: m[2], Raw: m[3], Loop: ord, Line: pos}
					if sub == "let" {
						ls.Lets = append(ls.Lets, c)
					} else if sub == "iterend" {
						ls.EndLets = append(ls.EndLets, c)
					} else {
						ls.IterLets = append(ls.IterLets, c)
					}
					lastClause = c
				case "assigns":
					for _, a := range strings.Split(subrest, ";") {
						a = strings.TrimSpace(a)
						if a != "" {
							ls.Assigns = append(ls.Assigns, a)
						}
					}
				default:
					return nil, fmt.Errorf("%s: unknown loop clause %q", pos, sub)
				}
			default:
				return nil, fmt.Errorf("%s: unhandled keyword %q", pos, first)
			}
		}
	}
	if inSpec {
		return nil, fmt.Errorf("unterminated spec block")
	}
	// label extraction and ==> rewriting
	lblRe := regexp.MustCompile(`^([a-z][A-Za-z0-9_]*):\s+(.*)$`)
	fix := func(c *Clause) {
		r := strings.TrimSpace(c.Raw)
		if m := lblRe.FindStringSubmatch(r); m != nil && c.Kind != "let" {
			c.Label = m[1]
			r = m[2]
		}
		c.Expr = rewriteImplies(r)
		if a, ok := topAntecedent(r); ok && (c.Kind == "ensures" || c.Kind == "iter") {
			c.Ante = rewriteImplies(a)
		}
	}
	for _, fc := range cs.Funcs {
		for _, c := range fc.Requires {
			fix(c)
		}
		for _, c := range fc.Relies {
			fix(c)
		}
		for _, c := range fc.Rejects {
			fix(c)
		}
		for _, c := range fc.Ensures {
			fix(c)
		}
		for _, c := range fc.Lets {
			fix(c)
		}
		for _, l := range fc.Loops {
			for _, c := range l.Invariants {
				fix(c)
			}
			for _, c := range l.Iters {
				fix(c)
			}
			for _, c := range l.Exits {
				fix(c)
			}
			for _, c := range l.Lets {
				fix(c)
			}
			for _, c := range l.IterLets {
				fix(c)
			}
			for _, c := range l.EndLets {
				fix(c)
			}
		}
	}
	for _, fc := range cs.FnTypes {
		for _, c := range fc.Requires {
			fix(c)
		}
		for _, c := range fc.Ensures {
			fix(c)
		}
		for _, c := range fc.Lets {
			fix(c)
		}
	}
	for _, l := range cs.Lemmas {
		l.Expr = rewriteImplies(strings.TrimSpace(l.Expr))
	}
	return cs, nil
}

// rewriteImplies turns `a ==> b` (lowest precedence, right associative) into (!(a) || (b)),
// recursively inside parentheses and braces.
func rewriteImplies(s string) string {
	// find top-level ==>
	depth := 0
	inStr := byte(0)
	for i := 0; i < len(s); i++ {
		ch := s[i]
		if inStr != 0 {
			if ch == '\\' {
				i++
			} else if ch == inStr {
				inStr = 0
			}
			continue
		}
		switch ch {
		case '"', '\'', '`':
			inStr = ch
		case '(', '{', '[':
			depth++
		case ')', '}', ']':
			depth--
		case '=':
			if depth == 0 && strings.HasPrefix(s[i:], "==>") {
				return "(!(" + rewriteImplies(s[:i]) + ") || (" + rewriteImplies(s[i+3:]) + "))"
			}
		}
	}
	// no top-level ==>: recurse into groups
	var sb strings.Builder
	inStr = 0
	for i := 0; i < len(s); i++ {
		ch := s[i]
		if inStr != 0 {
			sb.WriteByte(ch)
			if ch == '\\' && i+1 < len(s) {
				i++
				sb.WriteByte(s[i])
			} else if ch == inStr {
				inStr = 0
			}
			continue
		}
		switch ch {
		case '"', '\'', '`':
			inStr = ch
			sb.WriteByte(ch)
		case '(', '{', '[':
			// find matching close
			close := map[byte]byte{'(': ')', '{': '}', '[': ']'}[ch]
			d := 0
			j := i
			in2 := byte(0)
			for ; j < len(s); j++ {
				cj := s[j]
				if in2 != 0 {
					if cj == '\\' {
						j++
					} else if cj == in2 {
						in2 = 0
					}
					continue
				}
				if cj == '"' || cj == '\'' || cj == '`' {
					in2 = cj
				} else if cj == ch {
					d++
				} else if cj == close {
					d--
					if d == 0 {
						break
					}
				}
			}
			if j >= len(s) {
				sb.WriteString(s[i:])
				return sb.String()
			}
			inner := s[i+1 : j]
			if ch == '{' {
				// statements separated by ';' — rewrite each return expression conservatively:
				// only rewrite the part after "return "
				inner = rewriteBlock(inner)
			} else if ch == '(' {
				inner = rewriteArgs(inner)
			}
			sb.WriteByte(ch)
			sb.WriteString(inner)
			sb.WriteByte(close)
			i = j
		default:
			sb.WriteByte(ch)
		}
	}
	return sb.String()
}

// splitTop splits s at top-level occurrences of sep.
func splitTop(s string, sep byte) []string {
	var out []string
	depth := 0
	inStr := byte(0)
	start := 0
	for i := 0; i < len(s); i++ {
		ch := s[i]
		if inStr != 0 {
			if ch == '\\' {
				i++
			} else if ch == inStr {
				inStr = 0
			}
			continue
		}
		switch ch {
		case '"', '\'', '`':
			inStr = ch
		case '(', '{', '[':
			depth++
		case ')', '}', ']':
			depth--
		default:
			if ch == sep && depth == 0 {
				out = append(out, s[start:i])
				start = i + 1
			}
		}
	}
	out = append(out, s[start:])
	return out
}

func rewriteArgs(s string) string {
	parts := splitTop(s, ',')
	for i, p := range parts {
		parts[i] = rewriteImplies(p)
	}
	return strings.Join(parts, ",")
}

func rewriteBlock(s string) string {
	parts := splitTop(s, ';')
	for i, p := range parts {
		t := strings.TrimSpace(p)
		if strings.HasPrefix(t, "return ") {
			parts[i] = " return " + rewriteImplies(strings.TrimPrefix(t, "return "))
		} else {
			parts[i] = rewriteImplies(p)
		}
	}
	return strings.Join(parts, ";")
}

// topAntecedent returns A for a clause of the form  A ==> B  (top level).
func topAntecedent(s string) (string, bool) {
	depth := 0
	inStr := byte(0)
	for i := 0; i < len(s); i++ {
		ch := s[i]
		if inStr != 0 {
			if ch == '\\' {
				i++
			} else if ch == inStr {
				inStr = 0
			}
			continue
		}
		switch ch {
		case '"', '\'', '`':
			inStr = ch
		case '(', '{', '[':
			depth++
		case ')', '}', ']':
			depth--
		case '=':
			if depth == 0 && strings.HasPrefix(s[i:], "==>") {
				return s[:i], true
			}
		}
	}
	return "", false
}
