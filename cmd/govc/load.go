package main

// Loading: packages.Load of /repo (tag verif) -> contracts from //@ comments ->
// generated ghost file (overlay, never written into /repo) -> type-check again -> go/ssa.

import (
	"regexp"
	"fmt"
	"go/ast"
	"go/parser"
	"go/token"
	"go/types"
	"os"
	"path/filepath"
	"sort"
	"strings"

	"golang.org/x/tools/go/packages"
	"golang.org/x/tools/go/ssa"
)

type Program struct {
	RepoDir   string
	Fset      *token.FileSet
	Pkg       *packages.Package
	SSA       *ssa.Package
	Prog      *ssa.Program
	Contracts *Contracts
	GhostSrc  string
	Funcs     map[string]*ssa.Function // RelString name -> function (incl. anonymous)
	UndecidedC10 []string
	Undecided []string                 // problems that make contracts unusable (target missing, ...)
	ContractFiles []string
}

const ghostFileName = "zz_verif_ghost.go"

func relName(f *ssa.Function) string {
	if f.Pkg != nil {
		return f.RelString(f.Pkg.Pkg)
	}
	if f.Parent() != nil {
		return relName(f.Parent()) + "$?" // not expected
	}
	return f.String()
}

func loadPackages(dir string, overlay map[string][]byte) (*packages.Package, error) {
	cfg := &packages.Config{
		Mode: packages.NeedName | packages.NeedFiles | packages.NeedCompiledGoFiles | packages.NeedImports |
			packages.NeedTypes | packages.NeedSyntax | packages.NeedTypesInfo | packages.NeedTypesSizes,
		Dir:        dir,
		BuildFlags: []string{"-tags=verif"},
		Overlay:    overlay,
		Env:        append(os.Environ(), "GOFLAGS=-mod=mod", "GOPROXY=off", "GOSUMDB=off", "GOTOOLCHAIN=local"),
	}
	pkgs, err := packages.Load(cfg, ".")
	if err != nil {
		return nil, err
	}
	if len(pkgs) != 1 {
		return nil, fmt.Errorf("expected one package, got %d", len(pkgs))
	}
	p := pkgs[0]
	if len(p.Errors) > 0 {
		var msgs []string
		for _, e := range p.Errors {
			msgs = append(msgs, e.Error())
		}
		return p, fmt.Errorf("package errors:\n  %s", strings.Join(msgs, "\n  "))
	}
	return p, nil
}

func buildSSAFrom(fset *token.FileSet, pkg *types.Package, files []*ast.File, info *types.Info) (*ssa.Program, *ssa.Package) {
	prog := ssa.NewProgram(fset, ssa.InstantiateGenerics|ssa.GlobalDebug)
	seen := map[*types.Package]bool{}
	var createAll func(pkgs []*types.Package)
	createAll = func(pkgs []*types.Package) {
		for _, p := range pkgs {
			if !seen[p] {
				seen[p] = true
				if prog.Package(p) == nil {
					prog.CreatePackage(p, nil, nil, true)
				}
				createAll(p.Imports())
			}
		}
	}
	createAll(pkg.Imports())
	sp := prog.CreatePackage(pkg, files, info, false)
	sp.Build()
	return prog, sp
}

type importerFunc func(path string) (*types.Package, error)

func (f importerFunc) Import(path string) (*types.Package, error) { return f(path) }

func collectFuncs(sp *ssa.Package) map[string]*ssa.Function {
	out := map[string]*ssa.Function{}
	var add func(f *ssa.Function)
	add = func(f *ssa.Function) {
		if f == nil {
			return
		}
		out[relName(f)] = f
		for _, a := range f.AnonFuncs {
			add(a)
		}
		// bound-method wrappers created at closure sites (e.g. retryErr.Retry as a function value)
		for _, b := range f.Blocks {
			for _, ins := range b.Instrs {
				if mc, ok := ins.(*ssa.MakeClosure); ok {
					if g, ok := mc.Fn.(*ssa.Function); ok && g.Synthetic != "" {
						if _, seen := out[synthName(g)]; !seen {
							out[synthName(g)] = g
						}
					}
				}
			}
		}
	}
	for _, m := range sp.Members {
		switch m := m.(type) {
		case *ssa.Function:
			add(m)
		case *ssa.Type:
			for _, t := range []types.Type{m.Type(), types.NewPointer(m.Type())} {
				ms := sp.Prog.MethodSets.MethodSet(t)
				for i := 0; i < ms.Len(); i++ {
					f := sp.Prog.MethodValue(ms.At(i))
					if f != nil && f.Pkg == sp && f.Synthetic == "" {
						add(f)
					}
				}
			}
		}
	}
	return out
}

// LoadProgram loads /repo, parses contracts, generates the ghost file and builds SSA.
func LoadProgram(dir string) (*Program, error) {
	pr := &Program{RepoDir: dir}
	p1, err := loadPackages(dir, nil)
	if err != nil {
		return nil, fmt.Errorf("loading %s: %v", dir, err)
	}
	pr.Fset = p1.Fset
	// contracts
	var lines, poss []string
	for i, f := range p1.Syntax {
		fn := p1.CompiledGoFiles[i]
		if !strings.HasPrefix(filepath.Base(fn), "verif_contracts") {
			continue
		}
		pr.ContractFiles = append(pr.ContractFiles, fn)
		for _, cg := range f.Comments {
			for _, c := range cg.List {
				t := c.Text
				var body string
				switch {
				case strings.HasPrefix(t, "//@"):
					body = t[3:]
				case strings.HasPrefix(t, "// @"):
					body = t[4:]
				default:
					continue
				}
				lines = append(lines, body)
				pos := p1.Fset.Position(c.Pos())
				poss = append(poss, fmt.Sprintf("%s:%d", filepath.Base(pos.Filename), pos.Line))
			}
		}
	}
	cs, err := ParseContracts(lines, poss)
	if err != nil {
		return nil, fmt.Errorf("contracts: %v", err)
	}
	pr.Contracts = cs
	paramAlias = map[string][]string{}
	for n, fc := range cs.Funcs {
		if len(fc.ParamNames) > 0 {
			paramAlias[n] = fc.ParamNames
		}
	}
	_, sp1 := buildSSAFrom(p1.Fset, p1.Types, p1.Syntax, p1.TypesInfo)
	funcs1 := collectFuncs(sp1)
	src, undec := generateGhost(p1, funcs1, cs)
	pr.Undecided = undec
	pr.GhostSrc = src
	ghostPath := filepath.Join(dir, ghostFileName)
	gf, err := parser.ParseFile(p1.Fset, ghostPath, src, parser.ParseComments)
	if err != nil {
		return pr, fmt.Errorf("generated ghost file does not parse: %v", err)
	}
	files := append(append([]*ast.File{}, p1.Syntax...), gf)
	var terrs []string
	conf := types.Config{
		Sizes: p1.TypesSizes,
		Importer: importerFunc(func(path string) (*types.Package, error) {
			if path == "unsafe" {
				return types.Unsafe, nil
			}
			if q, ok := p1.Imports[path]; ok && q.Types != nil {
				return q.Types, nil
			}
			if q := findPkg(p1, path); q != nil {
				return q, nil
			}
			return nil, fmt.Errorf("package %s not loaded", path)
		}),
		Error: func(err error) { terrs = append(terrs, err.Error()) },
	}
	info := &types.Info{
		Types: map[ast.Expr]types.TypeAndValue{}, Defs: map[*ast.Ident]types.Object{}, Uses: map[*ast.Ident]types.Object{},
		Implicits: map[ast.Node]types.Object{}, Instances: map[*ast.Ident]types.Instance{}, Scopes: map[ast.Node]*types.Scope{},
		Selections: map[*ast.SelectorExpr]*types.Selection{}, FileVersions: map[*ast.File]string{},
	}
	tpkg, _ := conf.Check(p1.PkgPath, p1.Fset, files, info)
	if len(terrs) > 0 {
		if len(terrs) > 8 {
			terrs = terrs[:8]
		}
		return pr, fmt.Errorf("ghost file does not type-check against the current tree: %s", strings.Join(terrs, "; "))
	}
	p2 := *p1
	p2.Types = tpkg
	p2.TypesInfo = info
	p2.Syntax = files
	pr.Pkg = &p2
	pr.Fset = p1.Fset
	pr.Prog, pr.SSA = buildSSAFrom(p1.Fset, tpkg, files, info)
	pr.Funcs = collectFuncs(pr.SSA)
	pr.Undecided = append(pr.Undecided, checkClosers(pr)...)
	pr.UndecidedC10 = checkShared(pr)
	return pr, nil
}

func mangle(s string) string {
	var sb strings.Builder
	for _, r := range s {
		if r >= 'a' && r <= 'z' || r >= 'A' && r <= 'Z' || r >= '0' && r <= '9' {
			sb.WriteRune(r)
		} else {
			sb.WriteByte('_')
		}
	}
	return sb.String()
}

type typePrinter struct {
	pkg     *types.Package
	imports map[string]string // path -> name
}

func (tp *typePrinter) str(t types.Type) string {
	return types.TypeString(t, func(p *types.Package) string {
		if p == tp.pkg {
			return ""
		}
		tp.imports[p.Path()] = p.Name()
		return p.Name()
	})
}

// findLocal looks up a local variable by name in the syntax of fn (any scope).
func findLocal(info *types.Info, fn *ssa.Function, name string) types.Type {
	syn := fn.Syntax()
	if syn == nil {
		return nil
	}
	var found types.Type
	ast.Inspect(syn, func(n ast.Node) bool {
		if found != nil {
			return false
		}
		if id, ok := n.(*ast.Ident); ok && id.Name == name {
			if obj := info.Defs[id]; obj != nil {
				if v, ok := obj.(*types.Var); ok {
					found = v.Type()
				}
			}
		}
		return true
	})
	return found
}

func freeIdents(expr string) ([]string, error) {
	e, err := parser.ParseExpr(expr)
	if err != nil {
		return nil, err
	}
	seen := map[string]bool{}
	var out []string
	// collect identifiers that are not selector .Sel, not field keys; skip those
	// declared as parameters of nested func literals.
	var walk func(n ast.Node, bound map[string]bool)
	walk = func(n ast.Node, bound map[string]bool) {
		switch n := n.(type) {
		case nil:
			return
		case *ast.Ident:
			if !bound[n.Name] && !seen[n.Name] {
				seen[n.Name] = true
				out = append(out, n.Name)
			}
		case *ast.SelectorExpr:
			walk(n.X, bound)
		case *ast.KeyValueExpr:
			walk(n.Value, bound)
		case *ast.FuncLit:
			nb := map[string]bool{}
			for k := range bound {
				nb[k] = true
			}
			for _, f := range n.Type.Params.List {
				for _, nm := range f.Names {
					nb[nm.Name] = true
				}
				walkType(f.Type, func(id string) {
					if !seen[id] {
						seen[id] = true
						out = append(out, id)
					}
				})
			}
			// locally defined variables in the literal body
			ast.Inspect(n.Body, func(m ast.Node) bool {
				if as, ok := m.(*ast.AssignStmt); ok && as.Tok == token.DEFINE {
					for _, l := range as.Lhs {
						if id, ok := l.(*ast.Ident); ok {
							nb[id.Name] = true
						}
					}
				}
				return true
			})
			walk(n.Body, nb)
		default:
			ast.Inspect(n, func(m ast.Node) bool {
				if m == n {
					return true
				}
				switch m.(type) {
				case *ast.Ident, *ast.SelectorExpr, *ast.KeyValueExpr, *ast.FuncLit:
					walk(m, bound)
					return false
				}
				return true
			})
		}
	}
	walk(e, map[string]bool{})
	return out, nil
}

func walkType(e ast.Expr, f func(string)) {
	ast.Inspect(e, func(n ast.Node) bool {
		if s, ok := n.(*ast.SelectorExpr); ok {
			walkType(s.X, f)
			return false
		}
		if id, ok := n.(*ast.Ident); ok {
			f(id.Name)
		}
		return true
	})
}

// targetParams returns the ghost parameter list (receiver, params, captured variables) of fn.
func targetParams(tp *typePrinter, fn *ssa.Function) []ghostParam {
	var ps []ghostParam
	for i, p := range fn.Params {
		n := paramNameOf(fn, i)
		ps = append(ps, ghostParam{n, tp.str(p.Type())})
	}
	for _, fv := range fn.FreeVars {
		t := fv.Type()
		if pt, ok := t.(*types.Pointer); ok && !keepPtrFV(pt.Elem()) {
			t = pt.Elem()
		}
		ps = append(ps, ghostParam{freeVarNameOf(fn, fv), tp.str(t)})
	}
	return ps
}

func resultParams(tp *typePrinter, fn *ssa.Function) []ghostParam {
	res := fn.Signature.Results()
	var ps []ghostParam
	if res.Len() == 1 {
		ps = append(ps, ghostParam{"result", tp.str(res.At(0).Type())})
	} else {
		for i := 0; i < res.Len(); i++ {
			ps = append(ps, ghostParam{fmt.Sprintf("result%d", i), tp.str(res.At(i).Type())})
		}
	}
	return ps
}

func paramList(ps []ghostParam) string {
	var ss []string
	for _, p := range ps {
		ss = append(ss, p.Name+" "+p.Type)
	}
	return strings.Join(ss, ", ")
}

func useAll(ps []ghostParam) string {
	var ss []string
	for _, p := range ps {
		ss = append(ss, "_ = "+p.Name)
	}
	return strings.Join(ss, "; ")
}

func generateGhost(p *packages.Package, funcs map[string]*ssa.Function, cs *Contracts) (string, []string) {
	tp := &typePrinter{pkg: p.Types, imports: map[string]string{}}
	var undec []string
	var body strings.Builder
	universe := map[string]bool{}
	for _, n := range types.Universe.Names() {
		universe[n] = true
	}
	pkgScope := p.Types.Scope()
	ghostNames := map[string]bool{}
	for _, n := range ghostBuiltinNames {
		ghostNames[n] = true
	}
	// names defined in spec code blocks
	for _, code := range cs.SpecCode {
		f, err := parser.ParseFile(token.NewFileSet(), "spec.go", "package x\n"+code, 0)
		if err != nil {
			undec = append(undec, fmt.Sprintf("spec block does not parse: %v", err))
			continue
		}
		for _, d := range f.Decls {
			switch d := d.(type) {
			case *ast.FuncDecl:
				ghostNames[d.Name.Name] = true
			case *ast.GenDecl:
				for _, s := range d.Specs {
					switch s := s.(type) {
					case *ast.TypeSpec:
						ghostNames[s.Name.Name] = true
					case *ast.ValueSpec:
						for _, n := range s.Names {
							ghostNames[n.Name] = true
						}
					}
				}
			}
		}
	}
	curFn := ""
	emit := func(c *Clause, fnName string, base []ghostParam, retType string, target *ssa.Function, allowLocals bool) {
		c.FnName = fnName
		ps := append([]ghostParam{}, base...)
		have := map[string]bool{}
		for _, q := range ps {
			have[q.Name] = true
		}
		ids, err := freeIdents(c.Expr)
		if err != nil {
			undec = append(undec, fmt.Sprintf("%s: clause does not parse: %v: %s", c.Line, err, c.Expr))
			c.FnName = ""
			return
		}
		for _, id := range ids {
			if have[id] || universe[id] || ghostNames[id] {
				continue
			}
			if obj := pkgScope.Lookup(id); obj != nil {
				if _, isType := obj.(*types.TypeName); isType {
					continue
				}
			}
			if allowLocals && target != nil && strings.HasSuffix(id, "_next") {
				if t := findLocal(p.TypesInfo, target, strings.TrimSuffix(id, "_next")); t != nil {
					ps = append(ps, ghostParam{id, tp.str(t)})
					have[id] = true
					continue
				}
			}
			if allowLocals && target != nil && id != "rangeindex" {
				if t := findLocal(p.TypesInfo, target, id); t != nil {
					ps = append(ps, ghostParam{id, tp.str(t)})
					have[id] = true
					continue
				}
			}
			if pkgScope.Lookup(id) != nil {
				continue
			}
			if _, isPkg := importNameOf(p, id); isPkg {
				tp.imports[importPathOf(p, id)] = id
				continue
			}
			if allowLocals && (id == "rangeindex" || regexp.MustCompile(`^rangeindex\d+$`).MatchString(id)) {
				ps = append(ps, ghostParam{id, "int"})
				have[id] = true
				continue
			}
			if allowLocals && target != nil {
				if t := findLocal(p.TypesInfo, target, id); t != nil {
					ps = append(ps, ghostParam{id, tp.str(t)})
					have[id] = true
					continue
				}
			}
			msg := fmt.Sprintf("%s: identifier %q in clause does not resolve against the current tree", c.Line, id)
			if curFn != "" {
				// only this function's contract is unusable; the rest of the package is still checked
				if cs.Broken == nil {
					cs.Broken = map[string][]string{}
				}
				cs.Broken[curFn] = append(cs.Broken[curFn], msg)
			} else {
				undec = append(undec, msg)
			}
			c.FnName = ""
			return
		}
		c.Params = ps
		fmt.Fprintf(&body, "// %s\nfunc %s(%s) %s { return %s }\n\n", c.Line, fnName, paramList(ps), retType, c.Expr)
		if c.Ante != "" {
			c.AnteFn = fnName + "_ante"
			fmt.Fprintf(&body, "func %s(%s) bool { return %s }\n\n", c.AnteFn, paramList(ps), c.Ante)
		}
	}
	names := append([]string{}, cs.Order...)
	var ftNames []string
	for n := range cs.FnTypes {
		ftNames = append(ftNames, n)
	}
	sort.Strings(ftNames)
	process := func(fc *FuncContract, target *ssa.Function, base []ghostParam, resPs []ghostParam, mn string) {
		letPs := []ghostParam{}
		for i, c := range fc.Lets {
			emit(c, fmt.Sprintf("zz_let_%s_%d", mn, i), append(append([]ghostParam{}, base...), letPs...), c.Type, target, false)
			letPs = append(letPs, ghostParam{c.Name, c.Type})
		}
		for i, c := range fc.Requires {
			emit(c, fmt.Sprintf("zz_req_%s_%d", mn, i), append(append([]ghostParam{}, base...), letPs...), "bool", target, false)
		}
		for i, c := range fc.Relies {
			emit(c, fmt.Sprintf("zz_rely_%s_%d", mn, i), append([]ghostParam{}, base...), "bool", target, false)
		}
		for i, c := range fc.Rejects {
			emit(c, fmt.Sprintf("zz_rej_%s_%d", mn, i), append(append([]ghostParam{}, base...), letPs...), "bool", target, false)
		}
		for i, c := range fc.Ensures {
			ps := append(append(append([]ghostParam{}, base...), letPs...), resPs...)
			emit(c, fmt.Sprintf("zz_ens_%s_%d", mn, i), ps, "bool", target, true) // locals of the function: their value at the return
		}
		var ords []int
		for o := range fc.Loops {
			ords = append(ords, o)
		}
		sort.Ints(ords)
		for _, o := range ords {
			l := fc.Loops[o]
			lp := append(append([]ghostParam{}, base...), letPs...)
			for i, c := range l.Lets {
				emit(c, fmt.Sprintf("zz_llet_%s_%d_%d", mn, o, i), lp, c.Type, target, true)
				lp = append(lp, ghostParam{c.Name, c.Type})
			}
			for i, c := range l.Invariants {
				emit(c, fmt.Sprintf("zz_inv_%s_%d_%d", mn, o, i), lp, "bool", target, true)
			}
			for i, c := range l.IterLets {
				emit(c, fmt.Sprintf("zz_ilet_%s_%d_%d", mn, o, i), lp, c.Type, target, true)
				lp = append(lp, ghostParam{c.Name, c.Type})
			}
			for i, c := range l.EndLets {
				emit(c, fmt.Sprintf("zz_elet_%s_%d_%d", mn, o, i), lp, c.Type, target, true)
				lp = append(lp, ghostParam{c.Name, c.Type})
			}
			for i, c := range l.Iters {
				emit(c, fmt.Sprintf("zz_iter_%s_%d_%d", mn, o, i), lp, "bool", target, true)
			}
			for i, c := range l.Exits {
				emit(c, fmt.Sprintf("zz_exit_%s_%d_%d", mn, o, i), lp, "bool", target, true)
			}
		}
	}
	for _, name := range names {
		fc := cs.Funcs[name]
		target := funcs[name]
		if target == nil {
			if !fc.Trusted {
				undec = append(undec, fmt.Sprintf("%s: contract target %q not found in the current tree", fc.Line, name))
				continue
			}
			// trusted contract on an external function: parameters must be given by shape "params: a T, b U -> r V"
			continue
		}
		curFn = name
		process(fc, target, targetParams(tp, target), resultParams(tp, target), mangle(name))
		curFn = ""
	}
	for _, name := range ftNames {
		fc := cs.FnTypes[name]
		// fntype contracts: parameters are declared via shape "a T, b U -> r V"
		parts := strings.SplitN(fc.Shape, "->", 2)
		var base, res []ghostParam
		parse := func(s string) []ghostParam {
			var out []ghostParam
			for _, f := range splitTop(s, ',') {
				f = strings.TrimSpace(f)
				if f == "" {
					continue
				}
				i := strings.IndexAny(f, " \t")
				if i < 0 {
					undec = append(undec, fmt.Sprintf("%s: malformed shape", fc.Line))
					continue
				}
				out = append(out, ghostParam{f[:i], strings.TrimSpace(f[i:])})
			}
			return out
		}
		base = parse(parts[0])
		if len(parts) > 1 {
			res = parse(parts[1])
		}
		process(fc, nil, base, res, "ft_"+mangle(name))
	}
	for i, l := range cs.Lemmas {
		l.FnName = fmt.Sprintf("zz_lemma_%s_%d", mangle(l.Name), i)
		fmt.Fprintf(&body, "// %s\nfunc %s(%s) bool { return %s }\n\n", l.Line, l.FnName, paramList(l.Vars), l.Expr)
	}
	var hdr strings.Builder
	hdr.WriteString("// Code generated by govc from //@ contract comments. DO NOT EDIT.\n// It is passed to the type checker as an overlay and is never written into the repository.\n\n//go:build verif\n\npackage " + p.Types.Name() + "\n\n")
	// imports: parse the generated text once without imports and collect the package
	// qualifiers that are really used (pkg.Sel with pkg unresolved).
	candidates := map[string]string{} // name -> path
	for _, imp := range p.Types.Imports() {
		candidates[imp.Name()] = imp.Path()
	}
	for ip, n := range tp.imports {
		candidates[n] = ip
	}
	candidates["strings"] = "strings"
	rest := ghostPrelude + "\n// ---- spec code from contract files ----\n\n" + strings.Join(cs.SpecCode, "\n\n") + "\n\n// ---- clause functions ----\n\n" + body.String()
	used := map[string]bool{}
	if f, err := parser.ParseFile(token.NewFileSet(), "ghost.go", "package x\n"+rest, 0); err == nil {
		ast.Inspect(f, func(n ast.Node) bool {
			if se, ok := n.(*ast.SelectorExpr); ok {
				if id, ok := se.X.(*ast.Ident); ok && id.Obj == nil {
					if _, isPkg := candidates[id.Name]; isPkg {
						used[id.Name] = true
					}
				}
			}
			return true
		})
	} else {
		undec = append(undec, fmt.Sprintf("generated ghost file does not parse: %v", err))
	}
	var names2 []string
	for n := range used {
		names2 = append(names2, n)
	}
	sort.Strings(names2)
	if len(names2) > 0 {
		hdr.WriteString("import (\n")
		for _, n := range names2 {
			fmt.Fprintf(&hdr, "\t%s %q\n", n, candidates[n])
		}
		hdr.WriteString(")\n\n")
	}
	hdr.WriteString(rest)
	return hdr.String(), undec
}

func importNameOf(p *packages.Package, id string) (string, bool) {
	for _, imp := range p.Types.Imports() {
		if imp.Name() == id {
			return imp.Path(), true
		}
	}
	return "", false
}
func importPathOf(p *packages.Package, id string) string {
	s, _ := importNameOf(p, id)
	return s
}

// findPkg looks for a package among the transitive imports (export data) of p.
func findPkg(p *packages.Package, path string) *types.Package {
	seen := map[*types.Package]bool{}
	var rec func(t *types.Package) *types.Package
	rec = func(t *types.Package) *types.Package {
		if t == nil || seen[t] {
			return nil
		}
		seen[t] = true
		if t.Path() == path {
			return t
		}
		for _, i := range t.Imports() {
			if r := rec(i); r != nil {
				return r
			}
		}
		return nil
	}
	return rec(p.Types)
}

// checkClosers scans every close(x) in the package: if x is loaded from a field with a closer
// declaration, the enclosing function must be the declared one.
// checkShared: every field of a struct type declared shared must be classified by a guard declaration.
func checkShared(pr *Program) []string {
	var out []string
	for _, tn := range pr.Contracts.Shared {
		obj := pr.SSA.Pkg.Scope().Lookup(tn)
		if obj == nil {
			out = append(out, fmt.Sprintf("shared type %s does not exist in the current tree", tn))
			continue
		}
		stt, ok := obj.Type().Underlying().(*types.Struct)
		if !ok {
			out = append(out, fmt.Sprintf("shared type %s is not a struct", tn))
			continue
		}
		for i := 0; i < stt.NumFields(); i++ {
			f := tn + "." + stt.Field(i).Name()
			found := false
			for _, g := range pr.Contracts.Guards {
				if g.Field == f {
					found = true
				}
			}
			if !found {
				out = append(out, fmt.Sprintf("field %s of shared type %s has no guard declaration (C10)", f, tn))
			}
		}
	}
	for _, g := range pr.Contracts.Guards {
		tn, field, _ := strings.Cut(g.Field, ".")
		obj := pr.SSA.Pkg.Scope().Lookup(tn)
		ok := false
		if obj != nil {
			if stt, isS := obj.Type().Underlying().(*types.Struct); isS {
				for i := 0; i < stt.NumFields(); i++ {
					if stt.Field(i).Name() == field {
						ok = true
					}
				}
			}
		}
		if !ok {
			out = append(out, fmt.Sprintf("guard declaration for %s: no such field in the current tree (%s)", g.Field, g.Line))
		}
	}
	return out
}

func checkClosers(pr *Program) []string {
	var out []string
	if len(pr.Contracts.Closers) == 0 {
		return nil
	}
	for name, fn := range pr.Funcs {
		for _, b := range fn.Blocks {
			for _, ins := range b.Instrs {
				call, ok := ins.(ssa.CallInstruction)
				if !ok {
					continue
				}
				bi, ok := call.Common().Value.(*ssa.Builtin)
				if !ok || bi.Name() != "close" {
					continue
				}
				arg := call.Common().Args[0]
				if u, ok := arg.(*ssa.UnOp); ok {
					if fa, ok := u.X.(*ssa.FieldAddr); ok {
						st := fa.X.Type().Underlying().(*types.Pointer).Elem()
						key := types.TypeString(st, func(*types.Package) string { return "" }) + "." + st.Underlying().(*types.Struct).Field(fa.Field).Name()
						if owner, ok := pr.Contracts.Closers[key]; ok && owner != name {
							out = append(out, fmt.Sprintf("closer discipline broken: %s closes %s (declared closer: %s)", name, key, owner))
						}
					}
				}
			}
		}
	}
	return out
}

// synthName: name under which a synthetic wrapper (bound method closure) is registered.
func synthName(g *ssa.Function) string {
	s := g.String()
	// e.g. (github.com/at-wat/mqtt-go.ErrorWithRetry).Retry$bound -> (ErrorWithRetry).Retry$bound
	if i := strings.LastIndex(s, "/"); i >= 0 {
		if j := strings.Index(s[i:], "."); j >= 0 {
			pre := ""
			if strings.HasPrefix(s, "(*") {
				pre = "(*"
			} else if strings.HasPrefix(s, "(") {
				pre = "("
			}
			return pre + s[i+j+1:]
		}
	}
	return s
}

// keepPtrFV: captured variables of sync types (Once, Mutex, ...) have identity: clauses see a pointer to them.
func keepPtrFV(t types.Type) bool {
	if n, ok := t.(*types.Named); ok && n.Obj().Pkg() != nil && n.Obj().Pkg().Path() == "sync" {
		return true
	}
	return false
}
