package main

const ghostPreludeMarker = "// ---- ghost prelude ----"

// Names the engine intercepts (their Go bodies exist for replay only).
var ghostBuiltinNames = []string{
	"seq", "seqOf", "bytesOf", "cat", "cat3", "cat4", "b1", "u16be", "sub", "slen", "sat", "mkseq", "seqEq", "seq0",
	"sameSlice", "forallKey", "maxAlloc", "ssnap", "sliceSnap", "ssLen", "ssAt", "msnap", "mapSnap", "guardSnap", "guardVal", "guardSlice", "snapHas", "snapGet", "mapHas", "forall", "forallPairs", "forallGrid", "exists", "fresh", "arrayOf", "sameArray", "ite",
	"evCount", "evHeld", "evIndex", "evArg", "evSlice", "evBytes", "evRet", "evTotal",
	"holds", "holdsR", "closed", "ownsChan", "onceDone", "chanCap", "iterFresh", "iterFreshArr", "sameMap", "isNilFunc", "closureIs", "closureVar", "closureVarN", "closureCaptures", "sameFunc", "dynType", "typeIs",
	"strBytesEq", "runeOK", "validUTF8", "utf8norm", "utf8normOf", "ovfFree", "unchanged", "fnCode", "readyAt",
	"chainHas", "errChain", "retryOf", "isRetryErr", "ghostTrue", "splitOf", "joinedLen", "hasByte",
}

const ghostPrelude = ghostPreludeMarker + `

// seq is a finite byte sequence (ghost). Executable for replay; intercepted by the verifier.
type seq struct {
	n  int
	at func(int) byte
}

func seq0() seq { return seq{0, func(int) byte { return 0 }} }

func seqOf(b []byte) seq {
	c := make([]byte, len(b))
	copy(c, b)
	return seq{len(c), func(i int) byte { return c[i] }}
}

func bytesOf(s string) seq { return seq{len(s), func(i int) byte { return s[i] }} }

func cat(a, b seq) seq {
	return seq{a.n + b.n, func(i int) byte {
		if i < a.n {
			return a.at(i)
		}
		return b.at(i - a.n)
	}}
}
func cat3(a, b, c seq) seq    { return cat(cat(a, b), c) }
func cat4(a, b, c, d seq) seq { return cat(cat3(a, b, c), d) }

func b1(b byte) seq { return seq{1, func(int) byte { return b }} }

func u16be(v uint16) seq {
	return seq{2, func(i int) byte {
		if i == 0 {
			return byte(v >> 8)
		}
		return byte(v)
	}}
}

func sub(s seq, lo, hi int) seq { return seq{hi - lo, func(i int) byte { return s.at(lo + i) }} }
func slen(s seq) int            { return s.n }
func sat(s seq, i int) byte     { return s.at(i) }
func mkseq(n int, f func(int) byte) seq { return seq{n, f} }

func seqEq(a, b seq) bool {
	if a.n != b.n {
		return false
	}
	for i := 0; i < a.n; i++ {
		if a.at(i) != b.at(i) {
			return false
		}
	}
	return true
}

func forall(lo, hi int, f func(int) bool) bool {
	for i := lo; i < hi; i++ {
		if !f(i) {
			return false
		}
	}
	return true
}

// forallPairs(lo, hi, f): f(i, j) for all i != j in [lo, hi).
func forallPairs(lo, hi int, f func(int, int) bool) bool {
	for i := lo; i < hi; i++ {
		for j := lo; j < hi; j++ {
			if i != j && !f(i, j) {
				return false
			}
		}
	}
	return true
}

// forallGrid(n, m, f): f(i, j) for all 0 <= i < n, 0 <= j < m.
func forallGrid(n, m int, f func(int, int) bool) bool {
	for i := 0; i < n; i++ {
		for j := 0; j < m; j++ {
			if !f(i, j) {
				return false
			}
		}
	}
	return true
}

func exists(lo, hi int, f func(int) bool) bool {
	for i := lo; i < hi; i++ {
		if f(i) {
			return true
		}
	}
	return false
}

func ite[T any](c bool, a, b T) T {
	if c {
		return a
	}
	return b
}

// fresh(x): x is an object allocated during the call (verifier only; replay cannot observe it).
func fresh(x interface{}) bool { return true }

// arrayOf(b): identity of the backing array of b (verifier only).
func arrayOf(b []byte) int { return 0 }

// events (verifier only; replay of event clauses is not supported)
func evCount(name string) int               { return 0 }
func evTotal() int                          { return 0 }
func evIndex(name string, k int) int        { return 0 }

// evHeld(name, k, &x.mu): the k-th event of that name happened while the mutex was held (write mode).
func evHeld[M any](name string, k int, mu *M) bool { return true }
func evBytes(name string, k, arg int) seq   { return seq0() }
func evArg[T any](name string, k, arg int) T { var z T; return z }

// evSlice: elements of a slice argument as they were when the event happened
func evSlice[T any](name string, k, arg int) ssnap[T] { return ssnap[T]{} }
func evRet[T any](name string, k, res int) T { var z T; return z }

func ghostTrue() bool { return true }

// guardVal(&x.f): value the lock-guarded field had right after its guard was last acquired (verifier only).
func guardVal[T any](p *T) T { return *p }

// guardSlice(&x.f): elements the lock-guarded slice field held right after its guard was last acquired (verifier only).
func guardSlice[T any](p *[]T) ssnap[T] { return sliceSnap(*p) }

// closed(ch): ghost "channel ch has been closed" (verifier only).
func closed[T any](ch chan T) bool { return false }

// ownsChan(ch): in a requires clause: this goroutine is the only one that closes ch.
func ownsChan[T any](ch chan T) bool { return false }

// chanCap(ch): the capacity the channel was made with.
func chanCap[T any](ch chan T) int { return 0 }

// iterFresh(p): (in a loop iter clause) the object p points to was allocated during this iteration.
func iterFresh[T any](p *T) bool { return true }

// iterFreshArr(s): the backing array of s was allocated during this iteration.
func iterFreshArr[T any](s []T) bool { return true }

// onceDone(o): the sync.Once has run its function.
func onceDone(o *sync.Once) bool { return false }

// closureIs(f, "name"): the function value f was created from the function literal / function called name.
func closureIs[F any](f F, name string) bool { return true }

// closureVar[T](f, "name", i): the i-th captured variable (a pointer to its cell) of closure f of function name.
func closureVar[T any, F any](f F, name string, i int) T { var z T; return z }

// closureCaptures(f, "name", p): closure f of function name captures a variable that currently holds the pointer p
// (whatever that variable is called).
func closureCaptures[F any, T any](f F, name string, p *T) bool { return true }

// closureVarN[T](f, "name", "v"): the captured variable named v (robust against changes of the capture list).
func closureVarN[T any, F any](f F, name string, v string) T { var z T; return z }

// holds(&x.mu): the caller holds the mutex (write mode); holdsR: at least in read mode.
// In a requires clause of the function under verification this is how the lock state at entry is declared.
func holds[M any](mu *M) bool  { return true }
func holdsR[M any](mu *M) bool { return true }

// sameMap(a, b): a and b are the same map object.
func sameMap[M any](a, b M) bool { return true }

// sameFunc(a, b): a and b are the same function value (same closure object).
func sameFunc[F any](a, b F) bool { return true }

// sameSlice(a, b): same backing array, offset and length.
func sameSlice[T any](a, b []T) bool {
	return len(a) == len(b) && (len(a) == 0 || &a[0] == &b[0])
}

// forallKey(f): f holds for every value of its (unsigned 16-bit) key type.
func forallKey(f func(uint16) bool) bool {
	for k := 0; k < 65536; k++ {
		if !f(uint16(k)) {
			return false
		}
	}
	return true
}

// validUTF8(s): s is well-formed UTF-8.
func validUTF8(s string) bool { return string([]rune(s)) == s }

// maxAlloc(): largest make() size requested so far (verifier only).
func maxAlloc() int { return 0 }

// ssnap is a ghost snapshot of a slice's elements.
type ssnap[T any] struct{ s []T }

func sliceSnap[T any](s []T) ssnap[T] { return ssnap[T]{append([]T{}, s...)} }
func ssLen[T any](x ssnap[T]) int       { return len(x.s) }
func ssAt[T any](x ssnap[T], i int) T   { return x.s[i] }

// msnap is a ghost snapshot of a map's content.
type msnap[K comparable, V any] struct{ m map[K]V }

func mapSnap[K comparable, V any](m map[K]V) msnap[K, V] {
	c := map[K]V{}
	for k, v := range m {
		c[k] = v
	}
	return msnap[K, V]{c}
}
// guardSnap(m): content of the lock-guarded map m right after its guard was last acquired (verifier only).
func guardSnap[K comparable, V any](m map[K]V) msnap[K, V] { return mapSnap(m) }
func snapHas[K comparable, V any](s msnap[K, V], k K) bool { _, ok := s.m[k]; return ok }
func snapGet[K comparable, V any](s msnap[K, V], k K) V    { return s.m[k] }
func mapHas[K comparable, V any](m map[K]V, k K) bool      { _, ok := m[k]; return ok }

// hasByte(s, c): some byte of s equals c.
func hasByte(s string, c byte) bool {
	for i := 0; i < len(s); i++ {
		if s[i] == c {
			return true
		}
	}
	return false
}

// splitOf(s): the topic levels of s, i.e. the value of strings.Split(s, "/").
func splitOf(s string) []string { return strings.Split(s, "/") }

// sameArray(a, b): a and b share their backing array (replay: compares the first element address when both are non-empty).
func sameArray[T any](a, b []T) bool {
	return cap(a) > 0 && cap(b) > 0 && &a[:1][0] == &b[:1][0]
}
`
