package main

// Trusted models of external functions, interface methods, channels, locks.
// Every model used on a path is recorded in m.trusted and ends up in the evidence file.

import (
	"fmt"
	"go/token"
	"go/types"
	"strings"

	"golang.org/x/tools/go/ssa"
)

func (m *Machine) freshRets(st *State, sig *types.Signature, prefix string) []Value {
	var rets []Value
	for i := 0; i < sig.Results().Len(); i++ {
		t := sig.Results().At(i).Type()
		v := m.ts.FreshValue(prefix, t)
		m.assumeWellFormed(st, t, v)
		rets = append(rets, v)
	}
	return rets
}

func extName(fn *ssa.Function) string {
	s := fn.String()
	return s
}

func (m *Machine) external(st *State, fr *Frame, instr ssa.Instruction, fn *ssa.Function, args []Value) []Value {
	name := extName(fn)
	c := m.ctx
	sig := fn.Signature
	use := func(what string) { m.trusted[name+": "+what] = true }
	switch name {
	case "io.ReadFull":
		use("fills buf[0:n]; err == nil ==> n == len(buf); never writes outside buf")
		buf := args[1].(*Slice)
		l := m.ts.Leaves(buf.Elem)[0]
		old := m.elemArr(st, buf.Elem, buf.Arr, l)
		k := c.Fresh("stream", ArrSort(m.ts.Idx(), l.sort))
		i := c.Bound("ri", m.ts.Idx())
		in := c.And(m.idxLe(buf.Off, i), m.idxLt(i, m.idxAdd(buf.Off, buf.Len)))
		m.setElemArr(st, buf.Elem, buf.Arr, l, c.Lambda(i, c.Ite(in, c.Select(k, i), c.Select(old, i))))
		st.reads = append(append([]streamRead{}, st.reads...), streamRead{k, buf.Off, buf.Len})
		rets := m.freshRets(st, sig, "readfull")
		n := rets[0].(*Term)
		err := rets[1].(*Iface)
		st.assume(c.And(m.idxLe(m.ts.IdxConst(0), n), m.idxLe(n, buf.Len)))
		st.assume(c.Implies(c.Eq(err.Tag, c.Int(0)), c.Eq(n, buf.Len)))
		m.addEvent(st, name, args, rets)
		m.timePasses(st)
		return rets
	case "fmt.Sprintf", "fmt.Sprint", "fmt.Errorf", "path/filepath.Base", "strings.Join":
		use("total, no effect on library state, result unconstrained")
		return m.freshRets(st, sig, "ext")
	case "runtime.Caller":
		use("total, no effect, results unconstrained")
		return m.freshRets(st, sig, "caller")
	case "errors.New":
		use("returns a fresh non-nil error")
		p := m.freshObject(st, types.NewStruct(nil, nil), "errors.New")
		return []Value{&Iface{c.Int(m.typeCode(types.NewPointer(types.Typ[types.Invalid]))), p.Ref}}
	case "(*sync.Mutex).Lock", "(*sync.RWMutex).Lock":
		use("mutual exclusion; guarded fields may have been changed by other goroutines before acquisition")
		m.lockOp(st, fr, instr, args[0].(*Ptr), 2)
		return nil
	case "(*sync.RWMutex).RLock":
		use("shared lock")
		m.lockOp(st, fr, instr, args[0].(*Ptr), 1)
		return nil
	case "(*sync.Mutex).Unlock", "(*sync.RWMutex).Unlock":
		m.unlockOp(st, fr, instr, args[0].(*Ptr), 2)
		return nil
	case "(*sync.RWMutex).RUnlock":
		m.unlockOp(st, fr, instr, args[0].(*Ptr), 1)
		return nil
	case "sync/atomic.AddUint32":
		use("atomic; returns the new value; other goroutines may have advanced the counter in between")
		p := args[0].(*Ptr)
		delta := args[1].(*Term)
		// the value observed is arbitrary (concurrent increments); the result is the stored value
		cur := c.Fresh("atomic", m.ts.intSort(32))
		var nv *Term
		if m.mode == ModeBV {
			nv = c.BVBin("bvadd", cur, delta)
		} else {
			nv = c.IMod(c.IAdd(cur, delta), c.Int(1<<32))
		}
		m.frameCheck(st, fr, instr, p, "atomic add")
		m.Store(st, p, nv)
		m.addEvent(st, name, args, []Value{nv})
		m.atomicAccess(st, fr, instr, p)
		return []Value{nv}
	case "sync/atomic.StoreUint32":
		use("atomic store")
		p := args[0].(*Ptr)
		m.frameCheck(st, fr, instr, p, "atomic store")
		m.Store(st, p, args[1])
		m.addEvent(st, name, args, nil)
		m.atomicAccess(st, fr, instr, p)
		return nil
	case "sync/atomic.LoadUint32":
		use("atomic load")
		p := args[0].(*Ptr)
		v := c.Fresh("atomic", m.ts.intSort(32))
		m.atomicAccess(st, fr, instr, p)
		return []Value{v}
	case "math/rand.Int31n":
		use("0 <= result < n")
		n := args[0].(*Term)
		r := c.Fresh("rand", n.sort)
		if m.mode == ModeBV {
			st.assume(c.And(c.BVCmp("bvsle", c.BV(0, 32), r), c.BVCmp("bvslt", r, n)))
		} else {
			st.assume(c.And(c.ILe(c.Int(0), r), c.ILt(r, n)))
		}
		return []Value{r}
	case "math/rand.Seed":
		return nil
	case "time.Now", "(time.Time).Sub", "(time.Time).UnixNano", "time.Since":
		use("total, result unconstrained")
		return m.freshRets(st, sig, "time")
	case "context.Background", "context.TODO":
		use("a context that is never cancelled")
		return []Value{m.backgroundCtx(st)}
	case "context.WithCancel", "context.WithTimeout", "context.WithDeadline":
		use("child context: Done closed whenever the parent's is; Err non-nil once Done is closed")
		return m.deriveCtx(st, name, args)
	case "time.After":
		use("returns a channel that becomes ready no earlier than d")
		ch := m.makeChanRaw(st, "time.After")
		m.addEvent(st, name, args, []Value{ch})
		return []Value{ch}
	case "time.NewTicker":
		use("ticker with channel C")
		p := m.freshObject(st, sig.Results().At(0).Type().(*types.Pointer).Elem(), "ticker")
		m.addEvent(st, name, args, []Value{p})
		return []Value{p}
	case "(*time.Ticker).Stop":
		m.addEvent(st, name, args, nil)
		return nil
	case "(*sync.Once).Do":
		return m.onceDo(st, fr, instr, args)
	case "strings.Split":
		return m.stringsSplit(st, args)
	case "strings.Contains":
		return m.stringsContains(st, args)
	case "reflect.TypeOf", "reflect.ValueOf", "(reflect.Value).Elem", "(reflect.Value).FieldByName", "(reflect.Value).IsValid", "(reflect.Value).Interface":
		use("opaque reflection (results unconstrained; TypeOf of a non-nil value is a non-nil Type)")
		rets := m.freshRets(st, sig, "reflect")
		if name == "reflect.TypeOf" {
			if a, ok := args[0].(*Iface); ok {
				if r, ok := rets[0].(*Iface); ok {
					st.assume(c.Implies(c.Neq(a.Tag, c.Int(0)), c.Neq(r.Tag, c.Int(0))))
				}
			}
		}
		return rets
	}
	switch name {
	case "errors.Is", "errors.Unwrap":
		// walks the chain through the Unwrap/Is methods of the error types; those of this package are
		// side-effect free (their contracts are discharged under C19). Result unconstrained.
		use("no effect on library state (the package's Unwrap/Is methods are pure); result unconstrained")
		return m.freshRets(st, sig, "purelib")
	}
	if i := strings.Index(name, "."); i > 0 {
		switch strings.TrimPrefix(strings.TrimPrefix(name[:i], "(*"), "(") {
		case "strings", "bytes", "strconv", "unicode", "unicode/utf8", "unicode/utf16", "math", "math/bits", "path", "path/filepath", "time.Time", "time.Duration", "time":
			// side-effect-free standard library functions without a precise model: total, result unconstrained.
			// Sound for proofs (anything that depends on the result stays unproved) and it keeps a change that
			// starts using such a function decidable instead of undecided.
			use("pure standard-library function: no effect on library state, result unconstrained")
			return m.freshRets(st, sig, "purelib")
		}
	}
	m.problem("no trusted model for external function %s (called from %s)", name, relName(fr.fn))
	st.dead = true
	return m.freshRets(st, sig, "nomodel")
}

// ifaceModel: method call on an interface value of unknown dynamic type.
func (m *Machine) ifaceModel(st *State, fr *Frame, instr ssa.Instruction, iname string, cc *ssa.CallCommon, recv *Iface, sig *types.Signature, args []Value) []Value {
	c := m.ctx
	use := func(what string) { m.trusted[iname+": "+what] = true }
	all := append([]Value{recv}, args...)
	if cc != nil && cc.Method != nil {
		m.guardCall(st, fr, instr, cc.Value, cc.Method.Name())
	}
	switch {
	case strings.HasSuffix(iname, ".Error") && sig.Params().Len() == 0:
		use("pure")
		return m.freshRets(st, sig, "errstr")
	case iname == "context.Context.Done":
		use("returns the context's done channel (same channel on every call)")
		ch := c.App("ctxDone", IntSort, recv.Tag, recv.Val)
		m.assumeOnce(st, c.ILe(c.Int(0), ch))
		m.addEvent(st, iname, all, []Value{ch})
		return []Value{ch}
	case iname == "context.Context.Err":
		use("non-nil iff Done is closed; stable once non-nil")
		ch := c.App("ctxDone", IntSort, recv.Tag, recv.Val)
		// the error a context ends with is fixed per context; Err() is nil until Done is closed and that error afterwards
		final := &Iface{c.App("ctxErrTag", IntSort, recv.Tag, recv.Val), c.App("ctxErrVal", IntSort, recv.Tag, recv.Val)}
		closed := m.chanClosed(st, ch)
		m.assumeOnce(st, c.And(c.ILt(c.Int(0), final.Tag), c.ILe(c.Int(0), final.Val)))
		err := &Iface{c.Ite(closed, final.Tag, c.Int(0)), c.Ite(closed, final.Val, c.Int(0))}
		m.addEvent(st, iname, all, []Value{err})
		return []Value{err}
	case iname == "io.ReadWriteCloser.Write" || iname == "io.Writer.Write":
		use("io.Writer: 0 <= n <= len(p); err == nil ==> n == len(p); does not retain or modify p; no effect on library state")
		p := args[0].(*Slice)
		rets := m.freshRets(st, sig, "write")
		n := rets[0].(*Term)
		err := rets[1].(*Iface)
		st.assume(c.And(m.idxLe(m.ts.IdxConst(0), n), m.idxLe(n, p.Len)))
		st.assume(c.Implies(c.Eq(err.Tag, c.Int(0)), c.Eq(n, p.Len)))
		m.addEvent(st, "Transport.Write", all, rets)
		m.timePasses(st)
		return rets
	case iname == "io.ReadWriteCloser.Close" || iname == "io.Closer.Close":
		use("io.Closer: no effect on library state")
		rets := m.freshRets(st, sig, "close")
		m.addEvent(st, "Transport.Close", all, rets)
		m.timePasses(st)
		return rets
	case iname == "Handler.Serve":
		use("user handler: returns; does not modify the message before returning (it may keep it); touches library state only through the public API")
		m.escapeValue(st, sig.Params().At(0).Type(), args[0])
		m.userCodeUnlocked(st, fr, iname)
		m.addEvent(st, iname, all, nil)
		m.timePasses(st)
		return nil
	case iname == "Dialer.DialContext":
		use("Dialer: on success returns a new, unconnected BaseClient with a transport")
		rets := m.freshRets(st, sig, "dial")
		cli := rets[0].(*Ptr)
		err := rets[1].(*Iface)
		tr := m.Load(st, &Ptr{Mem: cli.Mem, Ref: cli.Ref, Path: "Transport", Elem: m.fieldType(cli.Elem, "Transport")}).(*Iface)
		st.assume(c.Implies(c.Eq(err.Tag, c.Int(0)), c.And(c.Neq(cli.Ref, c.Int(0)), c.Neq(tr.Tag, c.Int(0)))))
		m.addEvent(st, iname, all, rets)
		m.timePasses(st)
		return rets
	case iname == "Client.Ping":
		use("Client.Ping: returns (the implementation is the library's own client or a user's)")
		rets := m.freshRets(st, sig, "ping")
		m.addEvent(st, iname, all, rets)
		m.timePasses(st)
		return rets
	case iname == "interface{Unwrap() error}.Unwrap":
		use("pure")
		rets := []Value{&Iface{c.App("unwrapTag", IntSort, recv.Tag, recv.Val), c.App("unwrapVal", IntSort, recv.Tag, recv.Val)}}
		m.assumeWellFormed(st, sig.Results().At(0).Type(), rets[0])
		return rets
	}
	// generic: user-implemented interface
	use("unknown implementation: returns; no effect on library-private state")
	rets := m.freshRets(st, sig, "iface")
	for i, a := range args {
		m.escapeValue(st, sig.Params().At(i).Type(), a)
	}
	m.addEvent(st, iname, all, rets)
	m.timePasses(st)
	return rets
}

// ---------- globals ----------

func (m *Machine) loadGlobal(st *State, p *Ptr) (Value, bool) {
	// package-level error sentinels: distinct, non-nil, never reassigned (checked by scan)
	if _, ok := p.Elem.Underlying().(*types.Interface); ok && p.Path == "" {
		m.trusted["package-level error variables are distinct non-nil sentinels that are never reassigned"] = true
		tag := m.ctx.Int(m.typeCode(types.NewPointer(types.Typ[types.Invalid])))
		return &Iface{tag, p.Ref}, true
	}
	return nil, false
}

// ---------- locks and guards ----------

func lockKey(p *Ptr) string {
	return fmt.Sprintf("%d/%s", p.Ref.id, p.Path)
}

func (m *Machine) lockOp(st *State, fr *Frame, instr ssa.Instruction, mu *Ptr, mode int) {
	if held := st.locks[lockKey(mu)]; held != 0 && (held == 2 || mode == 2) && !st.pure {
		// sync mutexes are not reentrant: this goroutine would wait for itself (typically after a missing Unlock)
		m.recordObl(st, fr, "guard", fmt.Sprintf("selflock.%s.%d", mu.Path, m.ordinal(fr.fn, instr, "")), m.ctx.F, append([]string{"C10", "C11"}, m.safeTagsFor(fr.fn)...),
			fmt.Sprintf("%s is not acquired while this goroutine already holds it (self-deadlock)", mu.Path), false)
	}
	st.locks[lockKey(mu)] = mode
	m.addEvent(st, map[int]string{1: "rlock", 2: "lock"}[mode], []Value{mu}, nil)
	// guarded fields of the owner may have been changed by other goroutines
	for _, g := range m.P.Contracts.Guards {
		if g.Kind != "by" {
			continue
		}
		tn, field, ok := strings.Cut(g.Field, ".")
		if !ok || tn != mu.Mem {
			continue
		}
		locks, opt := guardOpts(g.Arg)
		mine := false
		for _, l := range locks {
			if l == mu.Path {
				mine = true
			}
		}
		if !mine {
			continue
		}
		if mode == 1 && opt["rwrole"] != "" {
			role := ""
			if m.fc != nil {
				role = m.fc.Role
			}
			okk := role == opt["rwrole"]
			m.recordObl(st, fr, "guard", fmt.Sprintf("rlockrole.%s.%d", g.Field, m.ordinal(fr.fn, instr, "")), m.ctx.Bool(okk), []string{"C10"},
				fmt.Sprintf("%s is read-locked only by the %s goroutine (it writes %s under the read lock) (%s)", mu.Path, opt["rwrole"], g.Field, g.Line), okk)
		}
		if opt["stable"] != "" {
			continue // discipline only: functional contracts treat the field as not changing behind their back
		}
		loc, ok := m.fieldLoc(mu, field)
		if ok {
			m.havocLoc(st, loc, "g."+field)
			nv := make(map[string]Value, len(st.guardVals)+1)
			for k, v := range st.guardVals {
				nv[k] = v
			}
			lv := m.Load(st, loc)
			nv[fmt.Sprintf("%d/%s", loc.Ref.id, loc.Path)] = lv
			if sl, isSl := lv.(*Slice); isSl {
				// element content of a guarded slice at acquisition time
				ss := &SliceSnap{Len: sl.Len, Off: sl.Off, Elem: sl.Elem}
				func() {
					defer func() { recover() }()
					for _, l := range m.ts.Leaves(sl.Elem) {
						ss.Arrs = append(ss.Arrs, m.elemArr(st, sl.Elem, sl.Arr, l))
					}
					nv[fmt.Sprintf("%d/%s/snap", loc.Ref.id, loc.Path)] = ss
				}()
			}
			st.guardVals = nv
			if _, isMap := loc.Elem.Underlying().(*types.Map); isMap {
				// other goroutines may also have changed the content of a guarded map
				ref := m.Load(st, loc).(*Term)
				m.havocMapContent(st, loc.Elem, ref)
				ng := make(map[int]*MapSnap, len(st.guardSnaps)+1)
				for k, v := range st.guardSnaps {
					ng[k] = v
				}
				ng[ref.id] = m.mapSnapOf(st, loc.Elem, ref)
				st.guardSnaps = ng
			}
		}
	}
	m.timePasses(st)
	// rely conditions of the function under verification about lock-guarded state
	if m.fc != nil && len(m.fc.Relies) > 0 && !st.pure && len(st.frames) > 0 && st.frames[0].entry != nil {
		bind := map[string]Value{}
		for k, v := range st.frames[0].entry {
			bind[k] = v
		}
		for _, r := range m.fc.Relies {
			if v, ok := m.evalClause(st, r, bind); ok {
				st.assume(v.(*Term))
				m.trusted["rely condition of "+relName(m.fn)+" on lock-guarded state (assumed after every lock acquisition): "+r.Raw] = true
			}
		}
	}
}

func (m *Machine) fieldLoc(owner *Ptr, field string) (*Ptr, bool) {
	// owner.Mem is the struct family; find the field type by walking the named struct
	var stt *types.Struct
	if obj := m.ts.pkg.Scope().Lookup(owner.Mem); obj != nil {
		stt, _ = obj.Type().Underlying().(*types.Struct)
	}
	if stt == nil {
		return nil, false
	}
	for i := 0; i < stt.NumFields(); i++ {
		if stt.Field(i).Name() == field {
			return &Ptr{Mem: owner.Mem, Ref: owner.Ref, Path: field, Elem: stt.Field(i).Type()}, true
		}
	}
	return nil, false
}

func (m *Machine) unlockOp(st *State, fr *Frame, instr ssa.Instruction, mu *Ptr, mode int) {
	k := lockKey(mu)
	ord := fmt.Sprint(m.ordinal(fr.fn, instr, ""))
	held := st.locks[k]
	if held != mode {
		m.oblige(st, fr, "guard.unlock", ord, m.ctx.F, m.safeTags(), "unlock of a lock that is not held in that mode")
	}
	delete(st.locks, k)
	m.addEvent(st, map[int]string{1: "runlock", 2: "unlock"}[mode], []Value{mu}, nil)
}

func (m *Machine) holds(st *State, owner *Ptr, muPath string, write bool) bool {
	k := fmt.Sprintf("%d/%s", owner.Ref.id, muPath)
	h := st.locks[k]
	if write {
		return h == 2
	}
	return h >= 1
}

// guardAccess checks the guard table for a field access (C10).
//   by mu1 mu2 [readrole r]  write: all listed locks held for writing; read: any of them held (or the goroutine has role r)
//   role r                   only functions running in role r (one goroutine) touch the field
//   atomic                   only through sync/atomic
//   config                   written only while the object is not yet shared (constructors, dialers, user set-up); read freely
//   lock                     a synchronisation primitive itself
func (m *Machine) guardAccess(st *State, fr *Frame, instr ssa.Instruction, p *Ptr, write bool) {
	if st.pure || len(m.P.Contracts.Guards) == 0 || p.Idx != nil || m.isGhostFn(fr.fn) {
		return
	}
	for _, g := range m.P.Contracts.Guards {
		tn, field, ok := strings.Cut(g.Field, ".")
		if !ok || tn != p.Mem || (p.Path != field && !strings.HasPrefix(p.Path, field+".")) {
			continue
		}
		if m.isLocalRef(st, p.Ref) {
			return // object not yet shared
		}
		what := map[bool]string{true: "write", false: "read"}[write]
		ord := fmt.Sprintf("%s.%s.%d", g.Field, what, m.ordinal(fr.fn, instr, ""))
		role := ""
		if m.fc != nil {
			role = m.fc.Role
		}
		switch g.Kind {
		case "by":
			locks, opt := guardOpts(g.Arg)
			readrole := opt["readrole"]
			okk := false
			if write {
				okk = true
				for _, l := range locks {
					if !m.holds(st, &Ptr{Ref: p.Ref}, l, true) {
						okk = false
					}
				}
				if !okk && opt["rwrole"] != "" && role == opt["rwrole"] {
					// the only goroutine that ever read-locks this mutex may also write under the read lock:
					// every other accessor takes the write lock (checked at each RLock: guard.rlockrole)
					okk = true
					for _, l := range locks {
						if !m.holds(st, &Ptr{Ref: p.Ref}, l, false) {
							okk = false
						}
					}
				}
			} else {
				for _, l := range locks {
					if m.holds(st, &Ptr{Ref: p.Ref}, l, false) {
						okk = true
					}
				}
				if !okk && readrole != "" && role == readrole {
					okk = true
					m.trusted["reads of "+g.Field+" by the "+readrole+" goroutine rely on the field being written before that goroutine is started and not afterwards (the owning Connect / SetClient runs once)"] = true
				}
				if !okk && opt["readphase"] != "" && m.fc != nil && m.fc.Phase == opt["readphase"] {
					okk = true
					m.trusted[relName(m.fn)+" is called only in phase '"+m.fc.Phase+"' (after Connect returned on that client, or under muConnecting held by the caller): its unlocked reads of "+g.Field+" are ordered after the only write"] = true
				}
			}
			m.recordObl(st, fr, "guard", ord, m.ctx.Bool(okk), []string{"C10"}, fmt.Sprintf("%s of %s requires %s (%s)", what, g.Field, g.Arg, g.Line), okk)
		case "role":
			okk := role == g.Arg
			m.recordObl(st, fr, "guard", ord, m.ctx.Bool(okk), []string{"C10"}, fmt.Sprintf("%s is touched only by the %s goroutine; this function runs in role %q (%s)", g.Field, g.Arg, role, g.Line), okk)
		case "atomic":
			m.recordObl(st, fr, "guard", ord, m.ctx.F, []string{"C10", "C15"}, fmt.Sprintf("%s is accessed only through sync/atomic (%s)", g.Field, g.Line), false)
		case "config":
			if write {
				m.recordObl(st, fr, "guard", ord, m.ctx.F, []string{"C10"}, fmt.Sprintf("%s is configuration: written only before the object is shared (%s)", g.Field, g.Line), false)
			}
		}
	}
}

// guardOpts splits "mu1 mu2 readrole r rwrole r readphase p stable" into locks and options.
func guardOpts(arg string) ([]string, map[string]string) {
	f := strings.Fields(arg)
	opt := map[string]string{}
	var locks []string
	for i := 0; i < len(f); i++ {
		switch f[i] {
		case "readrole", "rwrole", "readphase":
			if i+1 < len(f) {
				opt[f[i]] = f[i+1]
				i++
			}
		case "stable":
			opt["stable"] = "1"
		default:
			locks = append(locks, f[i])
		}
	}
	return locks, opt
}

// atomicAccess: access through sync/atomic: fine for atomic fields; mixing with a lock-guarded field is reported.
func (m *Machine) atomicAccess(st *State, fr *Frame, instr ssa.Instruction, p *Ptr) {
	if st.pure || p.Idx != nil {
		return
	}
	for _, g := range m.P.Contracts.Guards {
		tn, field, ok := strings.Cut(g.Field, ".")
		if !ok || tn != p.Mem || p.Path != field {
			continue
		}
		okk := g.Kind == "atomic"
		m.recordObl(st, fr, "guard", fmt.Sprintf("%s.atomic.%d", g.Field, m.ordinal(fr.fn, instr, "")), m.ctx.Bool(okk), []string{"C10", "C15"}, fmt.Sprintf("sync/atomic access to %s, declared %s (%s)", g.Field, g.Kind, g.Line), okk)
	}
}

// guardMap: element accesses of a map stored in a guarded field need the same protection as the field.
func (m *Machine) guardMap(st *State, fr *Frame, instr ssa.Instruction, mv ssa.Value, write bool) {
	if st.pure || m.isGhostFn(fr.fn) {
		return
	}
	src, ok := m.valueOrigin(mv)
	if !ok {
		return
	}
	pv, ok := m.val(st, fr, src).(*Ptr)
	if !ok {
		return
	}
	m.guardAccess(st, fr, instr, pv, write)
}

// valueOrigin: the address a value was loaded from (v = *addr), looking through phis of a single origin.
func (m *Machine) valueOrigin(v ssa.Value) (ssa.Value, bool) {
	if u, ok := v.(*ssa.UnOp); ok && u.Op == token.MUL {
		if _, isFA := u.X.(*ssa.FieldAddr); isFA {
			return u.X, true
		}
	}
	return nil, false
}

// guardCall: a method call on an interface stored in a field with a guardcall declaration.
func (m *Machine) guardCall(st *State, fr *Frame, instr ssa.Instruction, recv ssa.Value, method string) {
	if st.pure || m.isGhostFn(fr.fn) {
		return
	}
	watched := false
	for _, g := range m.P.Contracts.GuardCalls {
		if g.Kind == method {
			watched = true
		}
	}
	if !watched {
		return
	}
	ord := fmt.Sprintf("%s.%d", method, m.ordinal(fr.fn, instr, ""))
	src, ok := m.valueOrigin(recv)
	if ok {
		if pv, isP := m.val(st, fr, src).(*Ptr); isP {
			for _, g := range m.P.Contracts.GuardCalls {
				if g.Kind == method && g.Field == pv.Mem+"."+pv.Path {
					okk := m.holds(st, &Ptr{Ref: pv.Ref}, g.Arg, true)
					m.recordObl(st, fr, "guardcall", ord, m.ctx.Bool(okk), []string{"C10"}, fmt.Sprintf("%s on %s requires %s: packets are written whole, one writer at a time (%s)", method, g.Field, g.Arg, g.Line), okk)
					return
				}
			}
		}
	}
	// an interface value of unknown origin: only acceptable if it cannot be a watched transport
	for _, g := range m.P.Contracts.GuardCalls {
		if g.Kind != method {
			continue
		}
		if ft := m.fieldTypeByName(g.Field); ft != nil && types.AssignableTo(ft, recv.Type()) || ft != nil && types.AssignableTo(recv.Type(), ft) || ft != nil && implementsEither(ft, recv.Type()) {
			m.recordObl(st, fr, "guardcall", ord, m.ctx.F, []string{"C10"}, fmt.Sprintf("%s on an interface value that may be the transport of %s but is not read from that field here (cannot show that %s is held) (%s)", method, g.Field, g.Arg, g.Line), false)
			return
		}
	}
}

func implementsEither(a, b types.Type) bool {
	ia, ok1 := a.Underlying().(*types.Interface)
	ib, ok2 := b.Underlying().(*types.Interface)
	if !ok1 || !ok2 {
		return false
	}
	// b's method set within a's or the other way round: the same dynamic value may be held in both
	sub := func(x, y *types.Interface) bool {
		for i := 0; i < x.NumMethods(); i++ {
			found := false
			for j := 0; j < y.NumMethods(); j++ {
				if x.Method(i).Name() == y.Method(j).Name() {
					found = true
				}
			}
			if !found {
				return false
			}
		}
		return true
	}
	return sub(ia, ib) || sub(ib, ia)
}

func (m *Machine) fieldTypeByName(tf string) types.Type {
	tn, field, ok := strings.Cut(tf, ".")
	if !ok {
		return nil
	}
	obj := m.P.SSA.Pkg.Scope().Lookup(tn)
	if obj == nil {
		return nil
	}
	stt, ok := obj.Type().Underlying().(*types.Struct)
	if !ok {
		return nil
	}
	for i := 0; i < stt.NumFields(); i++ {
		if stt.Field(i).Name() == field {
			return stt.Field(i).Type()
		}
	}
	return nil
}

// ---------- time / other goroutines ----------

// timePasses: other goroutines may run; channels may have been closed meanwhile.
func (m *Machine) timePasses(st *State) {
	st.chanVer++
	// code we do not see (callees by contract, callbacks, other goroutines) may allocate:
	// reserve identifiers so that references they hand back can denote new objects
	m.ctx.nfresh += 16
}

// ---------- channels ----------

func (m *Machine) makeChanRaw(st *State, site string) *Term {
	r := m.newRef(st, nil, "chan", false, site)
	return r
}

func (m *Machine) makeChan(st *State, t types.Type) *Term {
	r := m.makeChanRaw(st, "make(chan)")
	if ct, ok := t.Underlying().(*types.Chan); ok {
		st.assume(m.ctx.Eq(m.ctx.App("chanElemT", IntSort, r), m.ctx.Int(m.typeCode(ct.Elem()))))
	}
	return r
}

// chanClosed: ghost "channel ch is closed now". Monotone over time (chanVer).
func (m *Machine) chanClosed(st *State, ch *Term) *Term {
	c := m.ctx
	// explicit closes performed on this path
	a := m.heapGet(st, "chan.closedByMe", ArrSort(IntSort, BoolSort))
	mine := c.Select(a, ch)
	if m.isLocalRef(st, ch) || (m.spawnLocal != nil && m.spawnLocal[ch.id]) {
		return mine
	}
	if st.closerFresh[ch.id] && !st.closerSpawned {
		// created here, published only through a field whose sole closer has not been started yet
		m.trusted["a channel created by init() is closed only by the reader goroutine that Connect starts afterwards (Connect is called once per BaseClient)"] = true
		return mine
	}
	if m.ownedChans[ch.id] {
		// only this function closes the channel (closer declaration, checked by scanning every close()):
		// its closed state does not change behind our back
		m.trusted["closer discipline: the channel in the declared field is closed only by the declared function (every close() site in the package is scanned)"] = true
		return c.Or(mine, c.App("closedAt", BoolSort, ch, c.Int(0)))
	}
	t := c.App("closedAt", BoolSort, ch, c.Int(int64(st.chanVer)))
	for _, q := range st.chanQ[ch.id] {
		if q.ver < st.chanVer {
			m.assumeOnce(st, c.Implies(q.term, t))
		}
	}
	found := false
	for _, q := range st.chanQ[ch.id] {
		if q.ver == st.chanVer {
			found = true
		}
	}
	if !found {
		st.chanQ[ch.id] = append(append([]chanQuery{}, st.chanQ[ch.id]...), chanQuery{st.chanVer, t})
	}
	return c.Or(mine, t)
}

func (m *Machine) setClosed(st *State, ch *Term) {
	a := m.heapGet(st, "chan.closedByMe", ArrSort(IntSort, BoolSort))
	st.heap["chan.closedByMe"] = m.ctx.Store(a, ch, m.ctx.T)
}

func (m *Machine) recvOp(st *State, fr *Frame, x *ssa.UnOp) {
	ch := m.val(st, fr, x.X).(*Term)
	elem := x.X.Type().Underlying().(*types.Chan).Elem()
	m.timePasses(st)
	v := m.ts.FreshValue("recv", elem)
	m.assumeWellFormed(st, elem, v)
	ok := m.ctx.Fresh("recvok", BoolSort)
	st.assume(m.ctx.Implies(m.ctx.Not(ok), m.chanClosed(st, ch)))
	m.assumeRecvInv(st, elem, v, ok)
	m.addEvent(st, "recv", []Value{ch}, []Value{v, ok})
	if x.CommaOk {
		fr.env[x] = &Tuple{[]Value{v, ok}}
	} else {
		fr.env[x] = v
	}
	fr.ip++
}

func (m *Machine) sendStmt(st *State, fr *Frame, x *ssa.Send) {
	ch := m.val(st, fr, x.Chan).(*Term)
	v := m.val(st, fr, x.X)
	m.escapeValue(st, x.X.Type(), v)
	m.obligeSendInv(st, fr, x, x.X.Type(), v)
	ord := fmt.Sprint(m.ordinal(fr.fn, x, ""))
	m.oblige(st, fr, "safe.send", ord, m.ctx.Not(m.chanClosed(st, ch)), m.safeTags(), "send on closed channel")
	m.timePasses(st)
	m.addEvent(st, "send", []Value{ch, v}, nil)
}

func (m *Machine) selectStmt(st *State, fr *Frame, x *ssa.Select) {
	c := m.ctx
	n := len(x.States)
	type choice struct{ idx int }
	var chans []*Term
	var sends []Value
	for _, s := range x.States {
		chans = append(chans, m.val(st, fr, s.Chan).(*Term))
		if s.Send != nil {
			sends = append(sends, m.val(st, fr, s.Send))
		} else {
			sends = append(sends, nil)
		}
	}
	if x.Blocking {
		m.timePasses(st)
	}
	mk := func(s *State, f *Frame, k int) {
		// result tuple: (index, recvOk, r_0 ... r_{n-1}) with one r per receive state
		res := &Tuple{}
		res.Elems = append(res.Elems, m.ts.NumConst(bigInt(int64(k)), m.ts.intSort(64)))
		ok := c.T
		var args []Value
		for i, sx := range x.States {
			args = append(args, chans[i])
			_ = sx
		}
		var recvVals []Value
		for i, sx := range x.States {
			if sx.Dir != types.RecvOnly {
				continue
			}
			elem := sx.Chan.Type().Underlying().(*types.Chan).Elem()
			if i == k {
				v := m.ts.FreshValue("sel", elem)
				m.assumeWellFormed(s, elem, v)
				okv := c.Fresh("selok", BoolSort)
				s.assume(c.Implies(c.Not(okv), m.chanClosed(s, chans[i])))
				m.assumeRecvInv(s, elem, v, okv)
				if m.isDoneChan(chans[i]) {
					// nothing is ever sent on a context's Done channel: a receive completes only once it is closed
					s.assume(m.chanClosed(s, chans[i]))
				}
				ok = okv
				recvVals = append(recvVals, v)
			} else {
				recvVals = append(recvVals, m.ts.Zero(elem))
			}
		}
		res.Elems = append(res.Elems, ok)
		res.Elems = append(res.Elems, recvVals...)
		if k >= 0 && x.States[k].Dir == types.SendOnly {
			m.obligeSendInv(s, f, x, x.States[k].Send.Type(), sends[k])
			m.escapeValue(s, x.States[k].Send.Type(), sends[k])
			s.assume(c.Not(m.chanClosed(s, chans[k])))
		}
		if k < 0 {
			// default chosen: no receive case was ready, in particular none of them is closed
			for i, sx := range x.States {
				if sx.Dir == types.RecvOnly {
					s.assume(c.Not(m.chanClosed(s, chans[i])))
				}
			}
		}
		// event: Args = channels then send values (nil for receive cases); Rets = (index, ok, received values...)
		all := append(append([]Value{}, args...), sends...)
		m.addEvent(s, "select", all, res.Elems)
		f.env[x] = res
		m.trace(s, fmt.Sprintf("select#%d=%d", m.ordinal(f.fn, x, ""), k))
		f.ip++
	}
	lo := 0
	if !x.Blocking {
		lo = -1
	}
	var states []*State
	for k := lo; k < n; k++ {
		if k == n-1 {
			states = append(states, st)
		} else {
			states = append(states, st.clone())
		}
	}
	for i, k := 0, lo; k < n; i, k = i+1, k+1 {
		s := states[i]
		mk(s, s.top(), k)
		if s != st {
			m.pushWork(s)
		}
	}
	if n == 0 && x.Blocking {
		st.dead = true
	}
}

func (m *Machine) goStmt(st *State, fr *Frame, x *ssa.Go) {
	var args []Value
	preLocal := map[int]bool{}
	noteLocal := func(v ssa.Value) {
		if _, isCh := v.Type().Underlying().(*types.Chan); isCh {
			if t, ok := m.val(st, fr, v).(*Term); ok && m.isLocalRef(st, t) {
				preLocal[t.id] = true
			}
		}
		if pt, isPtr := v.Type().Underlying().(*types.Pointer); isPtr {
			if _, isCh := pt.Elem().Underlying().(*types.Chan); isCh {
				// captured variable cell holding a channel
				if p, ok := m.val(st, fr, v).(*Ptr); ok && m.isLocalRef(st, p.Ref) {
					if t, ok := m.Load(st, p).(*Term); ok && m.isLocalRef(st, t) {
						preLocal[t.id] = true
					}
				}
			}
		}
	}
	for _, a := range x.Call.Args {
		noteLocal(a)
	}
	if mc, ok := x.Call.Value.(*ssa.MakeClosure); ok {
		for _, b := range mc.Bindings {
			noteLocal(b)
		}
	}
	for _, a := range x.Call.Args {
		v := m.val(st, fr, a)
		m.escapeValue(st, a.Type(), v)
		args = append(args, v)
	}
	name := "go"
	var evArgs []Value
	if fn := x.Call.StaticCallee(); fn != nil {
		name = "go:" + relName(fn)
		for _, owner := range m.P.Contracts.Closers {
			if owner == relName(fn) {
				defer func() { st.closerSpawned = true }()
			}
		}
		if mc, ok := x.Call.Value.(*ssa.MakeClosure); ok {
			v := m.val(st, fr, mc).(*Term)
			m.escapeRef(st, v)
			m.escapeClosureContents(st, v)
			evArgs = append(append([]Value{}, args...), v) // event argument: the closure itself, after the call arguments
		}
	} else if x.Call.IsInvoke() {
		recv := m.val(st, fr, x.Call.Value).(*Iface)
		args = append([]Value{recv}, args...)
		name = "go:" + m.ts.typeName(x.Call.Value.Type()) + "." + x.Call.Method.Name()
	}
	if evArgs == nil {
		evArgs = args
	}
	m.addEvent(st, name, evArgs, nil)
	// the spawned function's precondition must hold at the spawn
	if fn := x.Call.StaticCallee(); fn != nil {
		if fc := m.P.Contracts.Funcs[relName(fn)]; fc != nil && len(fc.Requires) > 0 {
			var fvals []Value
			if mc, ok := x.Call.Value.(*ssa.MakeClosure); ok {
				for _, b := range mc.Bindings {
					fvals = append(fvals, m.val(st, fr, b))
				}
			}
			bind := m.bindParams(st, fn, args, fvals)
			for _, l := range fc.Lets {
				if v, ok := m.evalClause(st, l, bind); ok {
					bind[l.Name] = v
				}
			}
			for i, r := range fc.Requires {
				m.spawnLocal = preLocal
				v, ok := m.evalClause(st, r, bind)
				m.spawnLocal = nil
				if !ok {
					continue
				}
				tags := r.Tags
				if len(tags) == 0 {
					tags = fc.Props
				}
				m.oblige(st, fr, "pre", fmt.Sprintf("go.%s.%d", relName(fn), i), v.(*Term), tags, "precondition of spawned "+relName(fn)+": "+r.Raw+"  ["+r.Line+"]")
			}
		}
	}
}

// ---------- context ----------

func (m *Machine) backgroundCtx(st *State) *Iface {
	c := m.ctx
	tag := c.Int(m.typeCode(types.NewPointer(types.Typ[types.UntypedNil])))
	v := &Iface{tag, c.IntBig(bigAdd(globalBase, 900000))}
	ch := c.App("ctxDone", IntSort, v.Tag, v.Val)
	_ = ch
	return v
}

func (m *Machine) deriveCtx(st *State, name string, args []Value) []Value {
	c := m.ctx
	parent := args[0].(*Iface)
	obj := m.newRef(st, nil, "ctx", false, name)
	tag := c.Int(m.typeCode(types.NewPointer(types.Typ[types.UntypedFloat])))
	child := &Iface{tag, obj}
	m.ctxParent[obj.id] = parent
	cancel := m.newRef(st, nil, "clo", false, "cancel of "+name)
	a := m.heapGet(st, "clo.fn", ArrSort(IntSort, IntSort))
	st.heap["clo.fn"] = c.Store(a, cancel, c.Int(-1))
	m.addEvent(st, name, args, []Value{child, cancel})
	return []Value{child, cancel}
}

func (m *Machine) onceDo(st *State, fr *Frame, instr ssa.Instruction, args []Value) []Value {
	m.problem("sync.Once.Do not modelled")
	st.dead = true
	return nil
}

// ---------- strings ----------

func (m *Machine) runeSort() *Sort { return m.ts.intSort(32) }

// stringToRunes models []rune(s): a fresh array whose length and elements are uninterpreted
// functions of s (UTF-8 decoding is not interpreted); 0 <= len(result) <= len(s).
func (m *Machine) stringToRunes(st *State, s *Str, elem types.Type) Value {
	c := m.ctx
	m.trusted["string <-> []rune conversions: uninterpreted UTF-8 decoding (rune count <= byte count; string([]rune(s)) == s for valid UTF-8 s)"] = true
	n := c.App("runes.len", m.ts.Idx(), s.Len, s.Arr)
	st.assume(c.And(m.idxLe(m.ts.IdxConst(0), n), m.idxLe(n, s.Len)))
	i := c.Bound("ru", m.ts.Idx())
	content := c.Lambda(i, c.App("runes.at", m.runeSort(), s.Len, s.Arr, i))
	ref := m.AllocArray(st, elem, map[string]*Term{"": content}, "[]rune(string)")
	m.runeSrc[ref.id] = &runeInfo{src: s, content: content, n: n}
	return &Slice{Arr: ref, Off: m.ts.IdxConst(0), Len: n, Cap: n, Elem: elem}
}

type runeInfo struct {
	src     *Str
	content *Term
	n       *Term
}

func (m *Machine) utf8norm(st *State, s *Str) *Str {
	c := m.ctx
	r := &Str{Len: c.App("utf8norm.len", m.ts.Idx(), s.Len, s.Arr), Arr: c.App("utf8norm.arr", ArrSort(m.ts.Idx(), m.ts.ByteSort()), s.Len, s.Arr)}
	valid := c.App("validUTF8", BoolSort, s.Len, s.Arr)
	three := m.ts.IdxConst(3)
	var bound *Term
	if m.mode == ModeInt {
		bound = c.IMul(three, s.Len)
	} else {
		bound = c.BVBin("bvmul", three, s.Len)
	}
	m.assumeOnce(st, c.And(m.idxLe(m.ts.IdxConst(0), r.Len), m.idxLe(r.Len, bound),
		c.Implies(valid, c.And(c.Eq(r.Len, s.Len), c.Eq(r.Arr, s.Arr)))))
	k := c.Bound("un", m.ts.Idx())
	m.assumeOnce(st, c.Forall([]*Term{k}, c.Implies(c.Or(m.idxLt(k, m.ts.IdxConst(0)), m.idxLe(r.Len, k)), c.Eq(c.Select(r.Arr, k), m.ts.zeroOf(m.ts.ByteSort())))))
	return r
}

func (m *Machine) runesToString(st *State, s *Slice) Value {
	c := m.ctx
	if ri, ok := m.runeSrc[s.Arr.id]; ok {
		l := m.ts.Leaves(s.Elem)[0]
		cur := m.elemArr(st, s.Elem, s.Arr, l)
		if cur == ri.content && s.Len == ri.n && s.Off.IsNum() && s.Off.num.Sign() == 0 {
			return m.utf8norm(st, ri.src)
		}
	}
	l := m.ts.Leaves(s.Elem)[0]
	cur := m.elemArr(st, s.Elem, s.Arr, l)
	r := &Str{Len: c.App("runes2str.len", m.ts.Idx(), s.Off, s.Len, cur), Arr: c.App("runes2str.arr", ArrSort(m.ts.Idx(), m.ts.ByteSort()), s.Off, s.Len, cur)}
	m.assumeOnce(st, m.idxLe(m.ts.IdxConst(0), r.Len))
	return r
}

// splitValue models strings.Split(s, sep) as a deterministic function of its arguments:
// a fresh array whose length and elements are uninterpreted functions of (s, sep).
// Trusted facts: at least one part; every part is a canonical string.
func (m *Machine) splitValue(st *State, s, sep *Str, elem types.Type) *Slice {
	c := m.ctx
	key := []*Term{s.Len, s.Arr, sep.Len, sep.Arr}
	n := c.App("split.len", m.ts.Idx(), key...)
	st.assume(c.And(m.idxLe(m.ts.IdxConst(1), n), m.idxLe(n, m.ts.NumConst(maxLen, m.ts.Idx()))))
	i := c.Bound("sp", m.ts.Idx())
	elen := c.Lambda(i, c.App("split.elen", m.ts.Idx(), append(append([]*Term{}, key...), i)...))
	earr := c.Lambda(i, c.App("split.earr", ArrSort(m.ts.Idx(), m.ts.ByteSort()), append(append([]*Term{}, key...), i)...))
	ref := m.AllocArray(st, elem, map[string]*Term{"len": elen, "arr": earr}, "strings.Split")
	// element lengths are non-negative and parts are canonical
	j := c.Bound("sj", m.ts.Idx())
	k := c.Bound("sk", m.ts.Idx())
	pl := c.App("split.elen", m.ts.Idx(), append(append([]*Term{}, key...), j)...)
	pa := c.App("split.earr", ArrSort(m.ts.Idx(), m.ts.ByteSort()), append(append([]*Term{}, key...), j)...)
	z := m.ts.IdxConst(0)
	m.assumeOnce(st, c.Forall([]*Term{j}, c.And(m.idxLe(z, pl), m.idxLe(pl, s.Len))))
	m.assumeOnce(st, c.Forall([]*Term{j, k}, c.Implies(c.Or(m.idxLt(k, z), m.idxLe(pl, k)), c.Eq(c.Select(pa, k), m.ts.zeroOf(m.ts.ByteSort())))))
	return &Slice{Arr: ref, Off: z, Len: n, Cap: n, Elem: elem}
}

func (m *Machine) stringsSplit(st *State, args []Value) []Value {
	m.trusted["strings.Split: deterministic function of its arguments; returns at least one part; no other property is assumed (levels are defined as its result)"] = true
	return []Value{m.splitValue(st, args[0].(*Str), args[1].(*Str), types.Typ[types.String])}
}

// hasSub: strings.Contains(s, sub) for a one-byte constant sub: exists i < len(s): s[i] == sub[0].
func (m *Machine) hasByteTerm(s *Str, b *Term) *Term {
	c := m.ctx
	i := c.Bound("hb", m.ts.Idx())
	return c.Exists([]*Term{i}, c.And(m.inBounds(i, s.Len), c.Eq(c.Select(s.Arr, i), b)))
}

func (m *Machine) stringsContains(st *State, args []Value) []Value {
	s, sub := args[0].(*Str), args[1].(*Str)
	if !sub.Len.IsNum() || sub.Len.num.Int64() != 1 {
		panic(unsupported("strings.Contains with a non-constant or multi-byte pattern"))
	}
	m.trusted["strings.Contains(s, c) for a one-byte c: true iff some index i < len(s) has s[i] == c"] = true
	b := m.ctx.Select(sub.Arr, m.ts.IdxConst(0))
	return []Value{m.hasByteTerm(s, b)}
}

func (m *Machine) havocMapContent(st *State, t types.Type, ref *Term) {
	c := m.ctx
	name, mt := m.mapNames(t)
	ks := m.ts.Leaves(mt.Key())[0].sort
	pa, pn := m.mapPresent(st, t, ref)
	st.heap[pn] = c.Store(pa, ref, c.Fresh("mp", ArrSort(ks, BoolSort)))
	for _, l := range m.ts.Leaves(mt.Elem()) {
		n := name + ".val." + l.path
		a := m.heapGet(st, n, ArrSort(IntSort, ArrSort(ks, l.sort)))
		st.heap[n] = c.Store(a, ref, c.Fresh("mv", ArrSort(ks, l.sort)))
	}
}

func (m *Machine) mapSnapOf(st *State, t types.Type, ref *Term) *MapSnap {
	name, mt := m.mapNames(t)
	ks := m.ts.Leaves(mt.Key())[0].sort
	pa, _ := m.mapPresent(st, t, ref)
	ms := &MapSnap{Present: m.ctx.Select(pa, ref), Map: mt}
	for _, l := range m.ts.Leaves(mt.Elem()) {
		n := name + ".val." + l.path
		a := m.heapGet(st, n, ArrSort(IntSort, ArrSort(ks, l.sort)))
		ms.Vals = append(ms.Vals, m.ctx.Select(a, ref))
	}
	return ms
}

func (m *Machine) isDoneChan(ch *Term) bool {
	return ch.op == "app" && ch.name == sanitize("ctxDone")
}

// chanInvOf: declared invariant of channels with this element type ("nonnil", "neverclosed").
func (m *Machine) chanInvOf(elem types.Type) string {
	if m.P.Contracts.ChanInv == nil {
		return ""
	}
	return m.P.Contracts.ChanInv[m.ts.typeName(elem)]
}

func (m *Machine) assumeRecvInv(st *State, elem types.Type, v Value, ok *Term) {
	inv := m.chanInvOf(elem)
	if inv == "" {
		return
	}
	m.trusted["channel invariant (rely): values of type "+m.ts.typeName(elem)+" received from channels are "+inv+"; the guarantee side is an obligation at every send/close"] = true
	if strings.Contains(inv, "neverclosed") {
		st.assume(ok)
	}
	if strings.Contains(inv, "nonnil") {
		if p, isP := v.(*Ptr); isP {
			st.assume(m.ctx.Implies(ok, m.ctx.Neq(p.Ref, m.ctx.Int(0))))
		}
	}
}

func (m *Machine) obligeSendInv(st *State, fr *Frame, ins ssa.Instruction, elem types.Type, v Value) {
	inv := m.chanInvOf(elem)
	if !strings.Contains(inv, "nonnil") {
		return
	}
	if p, isP := v.(*Ptr); isP {
		m.oblige(st, fr, "chan.nonnil", fmt.Sprint(m.ordinal(fr.fn, ins, "")), m.ctx.Neq(p.Ref, m.ctx.Int(0)), m.safeTags(), "values sent on channels of "+m.ts.typeName(elem)+" are non-nil (channel invariant)")
	}
}

func (m *Machine) fieldType(t types.Type, name string) types.Type {
	stt := t.Underlying().(*types.Struct)
	for i := 0; i < stt.NumFields(); i++ {
		if stt.Field(i).Name() == name {
			return stt.Field(i).Type()
		}
	}
	panic("no field " + name)
}
