package main

import (
	"time"
	"runtime/debug"
	"runtime/pprof"
	"sort"
	"flag"
	"fmt"
	"os"
	"strconv"
	"strings"
)

func envInt(name string, def int) int {
	if v := os.Getenv(name); v != "" {
		if n, err := strconv.Atoi(v); err == nil {
			return n
		}
	}
	return def
}

func main() {
	if len(os.Args) < 2 {
		fmt.Fprintln(os.Stderr, "usage: govc check -property <id> [-tier quick|thorough] | func <name> | ghost | list")
		os.Exit(2)
	}
	if pf := os.Getenv("GOVC_PROF"); pf != "" {
		f, _ := os.Create(pf)
		pprof.StartCPUProfile(f)
		if secs := envInt("GOVC_PROF_SECS", 0); secs > 0 {
			go func() {
				time.Sleep(time.Duration(secs) * time.Second)
				pprof.StopCPUProfile()
				os.Exit(3)
			}()
		}
		defer pprof.StopCPUProfile()
	}
	debug.SetGCPercent(800)
	cmd := os.Args[1]
	fs := flag.NewFlagSet(cmd, flag.ExitOnError)
	repo := fs.String("repo", "/repo", "repository directory")
	prop := fs.String("property", "", "property id")
	tier := fs.String("tier", os.Getenv("VERIF_TIER"), "quick|thorough")
	timeout := fs.Int("timeout", 0, "per-obligation solver timeout (s)")
	verbose := fs.Bool("v", false, "verbose")
	keep := fs.Bool("keep", false, "keep SMT files")
	out := fs.String("out", "/verif", "output root (evidence/, replay/)")
	fs.Parse(os.Args[2:])
	if *tier == "" {
		*tier = "quick"
	}
	seed := envInt("VERIF_SEED", 0)
	switch cmd {
	case "ghost":
		P, err := LoadProgram(*repo)
		if P != nil {
			fmt.Println(P.GhostSrc)
		}
		if err != nil {
			fmt.Fprintln(os.Stderr, err)
			os.Exit(2)
		}
	case "list":
		P, err := LoadProgram(*repo)
		if err != nil {
			fmt.Fprintln(os.Stderr, err)
			os.Exit(2)
		}
		if os.Getenv("GOVC_COVERAGE") != "" {
			probs, cov := coverageC10(P)
			for _, p := range probs {
				fmt.Println("PROBLEM:", p)
			}
			fmt.Println("covered by inlining:", cov)
			break
		}
		for _, n := range P.Contracts.Order {
			fmt.Println(n)
		}
	case "func":
		P, err := LoadProgram(*repo)
		if err != nil {
			fmt.Fprintln(os.Stderr, err)
			os.Exit(2)
		}
		for _, u := range P.Undecided {
			fmt.Println("UNDECIDED:", u)
		}
		to := *timeout
		if to == 0 {
			to = 10
		}
		code := 0
		for _, name := range fs.Args() {
			if debugFunc(P, name, to, *verbose, *keep, seed) {
				code = 1
			}
		}
		pprof.StopCPUProfile()
		os.Exit(code)
	case "params":
		// parameter names (receiver first) of every function under contract, as spelled in the current tree
		P, err := LoadProgram(*repo)
		if err != nil {
			fmt.Fprintln(os.Stderr, err)
			os.Exit(2)
		}
		for _, n := range P.Contracts.Order {
			fn := P.Funcs[n]
			if fn == nil || len(fn.Params) == 0 {
				continue
			}
			var ns []string
			for i, p := range fn.Params {
				nm := p.Name()
				if nm == "" || nm == "_" {
					nm = fmt.Sprintf("p%d", i)
				}
				ns = append(ns, nm)
			}
			fmt.Printf("%s\t%s\n", n, strings.Join(ns, " "))
		}
		os.Exit(0)
	case "deps":
		os.Exit(runDeps(*repo, *prop, *timeout))
	case "check":
		os.Exit(runCheck(*repo, *out, *prop, *tier, *timeout, seed, *verbose, *keep))
	default:
		fmt.Fprintln(os.Stderr, "unknown command", cmd)
		os.Exit(2)
	}
}

func debugFunc(P *Program, name string, timeout int, verbose, keep bool, seed int) bool {
	rep := verifyFunc(P, name)
	dir, _ := os.MkdirTemp("", "govc")
	if !keep {
		defer os.RemoveAll(dir)
	} else {
		fmt.Println("smt files in", dir)
	}
	solveAll(rep.Obls, dir, timeout, false, seed, 16)
	fmt.Printf("== %s (mode %s): %d obligations, %d paths, gen %d ms\n", name, rep.Mode, len(rep.Obls), rep.Paths, rep.GenMS)
	for _, p := range rep.Problems {
		fmt.Println("  PROBLEM:", p)
	}
	bad := len(rep.Problems) > 0
	for _, o := range rep.Obls {
		ok := o.Status == "unsat"
		if o.Cover {
			ok = o.Status != "unsat"
		}
		if !ok {
			bad = true
		}
		if show := os.Getenv("GOVC_SHOW"); show != "" && strings.Contains(o.Name, show) {
			fmt.Printf("  SHOW %s status=%s\n    trail: %s\n    goal: %s\n", o.Name, o.Status, o.Trail, o.ctx.Show(o.Goal))
			if os.Getenv("GOVC_SHOWPC") != "" {
				pcs := o.PC
				if len(o.Alts) > 0 {
					pcs = o.Alts[0]
				}
				for i, p := range pcs {
					fmt.Printf("    pc[%d]: %s\n", i, o.ctx.Show(p))
				}
			}
		}
		if verbose || !ok {
			fmt.Printf("  %-6s %-8s %5dms %s  %v  -- %s\n", map[bool]string{true: "ok", false: "FAIL"}[ok], o.Status, o.TimeMS, o.Name, o.Tags, o.Desc)
			if !ok {
				if len(o.Model) > 0 {
					var ks []string
					for k, v := range o.Model {
						if !strings.Contains(k, "[") || verbose {
							ks = append(ks, k+"="+v)
						}
					}
					sort.Strings(ks)
					fmt.Println("         model:", strings.Join(ks, " "))
				}
				if verbose {
					fmt.Println("         trail:", o.Trail)
					fmt.Println("         goal:", o.ctx.Show(o.Goal))
				}
			}
		}
	}
	if verbose {
		for _, t := range rep.Trusted {
			fmt.Println("  trusted:", t)
		}
	}
	return bad
}
