package main

import (
	"encoding/json"
	"go/types"
	"golang.org/x/tools/go/ssa"
	"fmt"
	"os"
	"path/filepath"
	"sort"
	"strings"
	"sync"
	"time"
)

type knownFinding struct {
	Property   string `json:"property"`
	Obligation string `json:"obligation"`
	Status     string `json:"status"` // known | fixed
	Commit     string `json:"commit,omitempty"`
	What       string `json:"what"`
}

type knownFile struct {
	Findings []knownFinding `json:"findings"`
}

func loadKnown(root string) []knownFinding {
	b, err := os.ReadFile(filepath.Join(root, "known_findings.json"))
	if err != nil {
		return nil
	}
	var kf knownFile
	if json.Unmarshal(b, &kf) != nil {
		return nil
	}
	return kf.Findings
}

type oblGroup struct {
	Name      string
	Func      string
	Kind      string
	Desc      string
	Tags      []string
	Instances []*Obligation
	Cover     bool
}

func (g *oblGroup) status() string {
	// cover: vacuous only if some instance is unsat
	if g.Cover {
		if g.Kind == "cover.any" {
			for _, o := range g.Instances {
				if o.Status != "unsat" {
					return "ok"
				}
			}
			return "vacuous"
		}
		for _, o := range g.Instances {
			if o.Status == "unsat" {
				return "vacuous"
			}
		}
		return "ok"
	}
	worst := "unsat"
	for _, o := range g.Instances {
		switch o.Status {
		case "sat":
			return "sat"
		case "unsat":
		default:
			worst = "unknown"
		}
	}
	return worst
}

func runCheck(repo, out, prop, tier string, timeout, seed int, verbose, keep bool) int {
	start := time.Now()
	if prop == "" {
		fmt.Fprintln(os.Stderr, "check: -property required")
		return 2
	}
	if timeout == 0 {
		timeout = 30
		if tier == "thorough" {
			timeout = 90
		}
	}
	undecided := func(reason string) int {
		fmt.Printf("UNDECIDED property=%s reason=%s\n", prop, strings.ReplaceAll(reason, "\n", " | "))
		return 2
	}
	P, err := LoadProgram(repo)
	if err != nil {
		return undecided(err.Error())
	}
	tLoad := time.Since(start)
	undec := []string{}
	names := funcsForProperty(P.Contracts, prop)
	for _, u := range P.Undecided {
		undec = append(undec, u)
	}
	if prop == "C10" {
		undec = append(undec, P.UndecidedC10...)
		probs, _ := coverageC10(P)
		undec = append(undec, probs...)
	}
	var lemmas []*Lemma
	for _, l := range P.Contracts.Lemmas {
		if hasTag(l.Tags, prop) {
			lemmas = append(lemmas, l)
		}
	}
	if len(names) == 0 && len(lemmas) == 0 {
		return undecided("no contract is tagged with this property")
	}
	onlyProperty = prop
	// generate obligations, one machine per function, in parallel
	reports := make([]*FuncReport, len(names))
	var wg sync.WaitGroup
	sem := make(chan struct{}, 16)
	for i, n := range names {
		wg.Add(1)
		go func(i int, n string) {
			defer wg.Done()
			sem <- struct{}{}
			reports[i] = verifyFunc(P, n)
			<-sem
		}(i, n)
	}
	wg.Wait()
	lemmaReps := make([]*FuncReport, len(lemmas))
	for i, l := range lemmas {
		lemmaReps[i] = verifyLemma(P, l)
	}
	reports = append(reports, lemmaReps...)
	var obls []*Obligation
	trusted := map[string]bool{}
	contractsUsed := map[string]bool{}
	var funcsInfo []map[string]interface{}
	for _, r := range reports {
		for _, p := range r.Problems {
			undec = append(undec, r.Name+": "+p)
		}
		n := 0
		for _, o := range r.Obls {
			if hasTag(o.Tags, prop) {
				obls = append(obls, o)
				n++
			}
		}
		for _, t := range r.Trusted {
			trusted[t] = true
		}
		for _, c := range r.Contracts {
			contractsUsed[c] = true
		}
		funcsInfo = append(funcsInfo, map[string]interface{}{"function": r.Name, "mode": r.Mode, "paths": r.Paths, "obligation_instances": n, "loops": r.Loops, "generation_ms": r.GenMS})
	}
	tGen := time.Since(start)
	dir, err := os.MkdirTemp("", "govc-"+prop+"-")
	if err != nil {
		return undecided(err.Error())
	}
	if !keep {
		defer os.RemoveAll(dir)
	}
	solverSeed := 0
	if tier == "thorough" {
		solverSeed = seed // quick tier: solver defaults, so that the verdict does not depend on the seed
	}
	known0 := loadKnown(out)
	for _, o := range obls {
		for _, k := range known0 {
			if k.Property == prop && k.Obligation == o.Name && k.Status == "known" {
				o.ShortTimeout = true // a recorded finding: do not spend the full timeout on it every run
			}
		}
	}
	solveAll(obls, dir, timeout, tier == "thorough", solverSeed, 16)
	// second chance for obligations that ran out of time (a loaded machine must not turn into an alarm):
	// a few at a time, three times the budget. Definite answers (unsat / sat) are final.
	var again []*Obligation
	for _, o := range obls {
		if !o.Cover && !o.ShortTimeout && o.Status != "unsat" && o.Status != "sat" && (o.TimeMS >= int64(timeout)*900 || o.QFTimedOut) {
			o.FirstStatus = o.Status
			o.Status = ""
			again = append(again, o)
		}
	}
	if len(again) > 0 && len(again) <= 8 {
		solveAll(again, dir, timeout*3, tier == "thorough", solverSeed, 8)
	} else {
		for _, o := range again {
			o.Status = o.FirstStatus
		}
	}
	tSolve := time.Since(start)
	if os.Getenv("GOVC_TIMING") != "" {
		fmt.Fprintf(os.Stderr, "load %v gen %v solve %v\n", tLoad, tGen-tLoad, tSolve-tGen)
	}
	// group by obligation name
	groups := map[string]*oblGroup{}
	var order []string
	for _, o := range obls {
		g := groups[o.Name]
		if g == nil {
			g = &oblGroup{Name: o.Name, Func: o.Func, Kind: o.Kind, Desc: o.Desc, Tags: o.Tags, Cover: o.Cover}
			groups[o.Name] = g
			order = append(order, o.Name)
		}
		g.Instances = append(g.Instances, o)
	}
	sort.Strings(order)
	known := loadKnown(out)
	isKnown := func(name string) *knownFinding {
		for i := range known {
			if known[i].Property == prop && known[i].Obligation == name && known[i].Status == "known" {
				return &known[i]
			}
		}
		return nil
	}
	// a function whose contract could not be evaluated on this tree (clause does not resolve, unsupported
	// construct, missing loop invariant ...) is undecided: failures inside it are not reported as violations
	problemFuncs := map[string]bool{}
	for _, r := range reports {
		if len(r.Problems) > 0 {
			problemFuncs[r.Name] = true
		}
	}
	contractsBroken := len(P.Undecided) > 0
	nViol := 0
	discharged := 0
	solverCount := map[string]int{}
	var solverMS int64
	var samples []map[string]interface{}
	vacuous := []string{}
	var knownLines []string
	seenKnown := map[string]bool{}
	replayDir := filepath.Join(out, "replay", prop)
	for _, n := range order {
		g := groups[n]
		st := g.status()
		var ms int64
		for _, o := range g.Instances {
			solverCount[o.Solver]++
			solverMS += o.TimeMS
			if o.TimeMS > ms {
				ms = o.TimeMS
			}
		}
		if len(samples) < 400 {
			samples = append(samples, map[string]interface{}{"obligation": n, "kind": g.Kind, "clause": g.Desc, "instances": len(g.Instances), "result": st, "solver": g.Instances[0].Solver, "max_ms": ms})
		}
		switch st {
		case "unsat", "ok":
			discharged++
			continue
		case "vacuous":
			vacuous = append(vacuous, n)
			continue
		}
		if k := isKnown(n); k != nil {
			if !seenKnown[n] {
				seenKnown[n] = true
				knownLines = append(knownLines, fmt.Sprintf("KNOWN-FINDING: property=%s %s: %s", prop, n, k.What))
			}
			continue
		}
		if g.Kind == "unwinddefault" {
			undec = append(undec, fmt.Sprintf("%s: %s", n, g.Desc))
			continue
		}
		if contractsBroken || problemFuncs[g.Func] {
			undec = append(undec, fmt.Sprintf("%s: not discharged, but the contract of %s cannot be evaluated on this tree", n, g.Func))
			continue
		}
		// violation
		nViol++
		var bad *Obligation
		for _, o := range g.Instances {
			if o.Status == "sat" {
				bad = o
				break
			}
		}
		if bad == nil {
			for _, o := range g.Instances {
				if o.Status != "unsat" {
					bad = o
					break
				}
			}
		}
		rp := filepath.Join(replayDir, mangle(n)+".json")
		confirmed, replayInfo := tryReplay(P, repo, bad, dir)
		rec := map[string]interface{}{
			"property": prop, "obligation": n, "function": g.Func, "clause": g.Desc, "solver_status": bad.Status,
			"solver": bad.Solver, "model": bad.Model, "path": bad.Trail, "solver_output": truncate(bad.Output, 4000), "replay": replayInfo,
		}
		_ = writeJSON(rp, rec)
		suffix := ""
		if !confirmed {
			suffix = " no-failing-input-found"
		}
		fmt.Printf("VIOLATION property=%s replay=%s%s\n", prop, rp, suffix)
		if verbose {
			fmt.Printf("  obligation %s: %s (%s)\n", n, g.Desc, bad.Status)
		}
	}
	for _, l := range knownLines {
		fmt.Println(l)
	}
	total := len(order)
	tb := []string{}
	for t := range trusted {
		tb = append(tb, t)
	}
	sort.Strings(tb)
	var cu []string
	for c := range contractsUsed {
		cu = append(cu, c)
	}
	sort.Strings(cu)
	assumptions := append([]string{
		"go/ssa + go/types (x/tools v0.29.0) represent the program; govc's SSA->SMT translation and memory model (DESIGN.md section 2)",
		"solvers z3 4.8.12, z3 5.1.0, cvc5 1.0.3",
		"slice/string lengths <= 2^48; distinct input slices of a function do not alias unless its contract says so",
		"sequential proof per goroutine: values of lock-guarded fields are arbitrary at each acquisition; other shared fields are assumed stable (see C10)",
	}, tb...)
	for _, c := range cu {
		assumptions = append(assumptions, "callee contract used modularly: "+c+" (its own obligations are discharged under the properties it is tagged with)")
	}
	ev := evidence{PropertyID: prop, Tier: tier, Seed: seed, Level: "proof", WallS: time.Since(start).Seconds(), Violations: nViol,
		Assumptions: assumptions,
		Coverage: map[string]interface{}{
			"obligations":           total - len(knownLines), // obligations claimed as proved (recorded known findings are counted separately, below)
			"discharged":            discharged,
			"known_findings":        len(knownLines),
			"known_finding_obligations_failing": knownLines,
			"obligation_instances":  len(obls),
			"checker_cmd":           fmt.Sprintf("bin/govc check -property %s -tier %s (per obligation: z3-new | z3 | cvc5 raced, timeout %ds)", prop, tier, timeout),
			"trusted_base":          tb,
			"functions_under_contract": funcsInfo,
			"by_backend":            solverCount,
			"solver_ms_total":       solverMS,
			"samples":               samples,
			"vacuity_alarms":        vacuous,
			"undecided":             undec,
			"integer_semantics":     "mode int: mathematical integers with signed-overflow obligations and explicit mod for unsigned wrap; mode bv: exact bit-vectors (per function, see functions_under_contract)",
		}}
	if err := writeJSON(filepath.Join(out, "evidence", prop+".json"), ev); err != nil {
		fmt.Fprintln(os.Stderr, "writing evidence:", err)
	}
	if nViol > 0 {
		return 1
	}
	if len(undec) > 0 {
		return undecided(strings.Join(undec, " ;; "))
	}
	if len(vacuous) > 0 {
		return undecided("vacuous contracts: " + strings.Join(vacuous, ", "))
	}
	fmt.Printf("OK property=%s obligations=%d discharged=%d known=%d functions=%d wall=%.1fs\n", prop, total, discharged, len(knownLines), len(names), time.Since(start).Seconds())
	return 0
}

func verifyLemma(P *Program, l *Lemma) *FuncReport {
	rep := &FuncReport{Name: "lemma " + l.Name, Loops: map[string]string{}}
	fn := P.Funcs[l.FnName]
	if fn == nil {
		rep.Problems = append(rep.Problems, "lemma function missing")
		return rep
	}
	fc := &FuncContract{Name: l.FnName, Mode: l.Mode, Loops: map[int]*LoopSpec{}}
	m := newMachine(P, fn, fc)
	rep.Mode = m.mode.String()
	defer func() {
		if e := recover(); e != nil {
			rep.Problems = append(rep.Problems, fmt.Sprint(e))
		}
	}()
	st := &State{heap: map[string]*Term{}, locks: map[string]int{}, chanQ: map[int][]chanQuery{}}
	var args []Value
	for _, p := range fn.Params {
		v := m.ts.FreshValue("in."+p.Name(), p.Type())
		m.assumeWellFormed(st, p.Type(), v)
		m.inputLeaves(p.Name(), p.Type(), v)
		args = append(args, v)
	}
	res := m.pureCall(st, fn, args, nil)[0]
	o := &Obligation{Func: rep.Name, Name: "lemma." + l.Name, Kind: "lemma", Tags: l.Tags, Desc: l.Expr + "  [" + l.Line + "]", PC: st.pc, Goal: res.(*Term), ctx: m.ctx, Inputs: m.inputs}
	rep.Obls = []*Obligation{o}
	for k := range m.trusted {
		rep.Trusted = append(rep.Trusted, k)
	}
	return rep
}

// tryReplay is filled in by replay.go

// coverageC10: the access discipline is checked inside functions under contract (and in the functions
// they inline). This scan lists every other function of the package that touches a field of a shared
// type, or calls a watched transport method, without being reached that way.
func coverageC10(P *Program) (problems []string, covered []string) {
	shared := map[string]bool{}
	for _, t := range P.Contracts.Shared {
		shared[t] = true
	}
	touches := func(fn *ssa.Function) bool {
		for _, b := range fn.Blocks {
			for _, ins := range b.Instrs {
				var xt types.Type
				switch x := ins.(type) {
				case *ssa.FieldAddr:
					if ownAlloc(x.X) {
						continue // object built by this function and only returned: not shared yet
					}
					xt = x.X.Type()
				case *ssa.Field:
					xt = x.X.Type()
				case ssa.CallInstruction:
					cc := x.Common()
					if cc.IsInvoke() {
						for _, g := range P.Contracts.GuardCalls {
							if g.Kind == cc.Method.Name() {
								return true
							}
						}
					}
					continue
				default:
					continue
				}
				if pt, ok := xt.Underlying().(*types.Pointer); ok {
					xt = pt.Elem()
				}
				if n, ok := xt.(*types.Named); ok && n.Obj().Pkg() == P.SSA.Pkg && shared[n.Obj().Name()] {
					return true
				}
			}
		}
		return false
	}
	isGhost := func(fn *ssa.Function) bool {
		return strings.HasSuffix(P.Fset.Position(fn.Pos()).Filename, ghostFileName)
	}
	contracted := func(fn *ssa.Function) bool {
		fc := P.Contracts.Funcs[relName(fn)]
		return fc != nil && !fc.Trusted
	}
	// callers: static call sites (calls, defers) and sync.Once.Do(closure); go statements do NOT count (the body runs elsewhere)
	callers := map[*ssa.Function][]*ssa.Function{}
	spawned := map[*ssa.Function]bool{}
	escaped := map[*ssa.Function]bool{}
	for _, fn := range P.Funcs {
		if isGhost(fn) {
			continue
		}
		for _, b := range fn.Blocks {
			for _, ins := range b.Instrs {
				if ci, ok := ins.(ssa.CallInstruction); ok {
					cc := ci.Common()
					if callee := cc.StaticCallee(); callee != nil {
						if _, isGo := ins.(*ssa.Go); isGo {
							spawned[callee] = true
						} else {
							callers[callee] = append(callers[callee], fn)
						}
						if callee.String() == "(*sync.Once).Do" && len(cc.Args) == 2 {
							if mc, ok := cc.Args[1].(*ssa.MakeClosure); ok {
								callers[mc.Fn.(*ssa.Function)] = append(callers[mc.Fn.(*ssa.Function)], fn)
							}
						}
					}
				}
				if mc, ok := ins.(*ssa.MakeClosure); ok {
					f := mc.Fn.(*ssa.Function)
					for _, r := range *mc.Referrers() {
						switch u := r.(type) {
						case ssa.CallInstruction:
							if u.Common().Value == mc {
								continue // called, deferred or spawned directly
							}
							if c := u.Common().StaticCallee(); c != nil && c.String() == "(*sync.Once).Do" {
								continue
							}
							escaped[f] = true
						case *ssa.DebugRef:
						default:
							escaped[f] = true
						}
					}
				}
			}
		}
	}
	memo := map[*ssa.Function]int{}
	var cov func(fn *ssa.Function) bool
	cov = func(fn *ssa.Function) bool {
		if contracted(fn) {
			return true
		}
		if v, ok := memo[fn]; ok {
			return v == 1
		}
		memo[fn] = 0
		ok := len(callers[fn]) > 0 && !spawned[fn] && !escaped[fn]
		if fn.Parent() == nil && fn.Signature.Recv() == nil && fn.Object() != nil && fn.Object().Exported() {
			ok = false // part of the API: callable from any goroutine
		}
		if recv := fn.Signature.Recv(); recv != nil && fn.Object() != nil && fn.Object().Exported() {
			rt := recv.Type()
			if pt, isP := rt.(*types.Pointer); isP {
				rt = pt.Elem()
			}
			if n, isN := rt.(*types.Named); !isN || n.Obj().Exported() {
				ok = false
			}
		}
		for _, c := range callers[fn] {
			if !cov(c) {
				ok = false
			}
		}
		if ok {
			memo[fn] = 1
		}
		return ok
	}
	var names []string
	for n := range P.Funcs {
		names = append(names, n)
	}
	sort.Strings(names)
	seen := map[*ssa.Function]bool{}
	for _, n := range names {
		fn := P.Funcs[n]
		if seen[fn] || isGhost(fn) || fn.Synthetic != "" || len(fn.Blocks) == 0 {
			continue
		}
		seen[fn] = true
		if !touches(fn) {
			continue
		}
		if cov(fn) {
			covered = append(covered, n)
		} else {
			problems = append(problems, fmt.Sprintf("%s touches shared state but is neither under contract nor only inlined into functions under contract", n))
		}
	}
	return
}

// ownAlloc: v is an allocation of this function whose only uses are field initialisation and being returned.
func ownAlloc(v ssa.Value) bool {
	a, ok := v.(*ssa.Alloc)
	if !ok {
		return false
	}
	for _, r := range *a.Referrers() {
		switch u := r.(type) {
		case *ssa.FieldAddr, *ssa.DebugRef, *ssa.Return:
		case *ssa.MakeInterface:
			for _, r2 := range *u.Referrers() {
				switch r2.(type) {
				case *ssa.Return, *ssa.DebugRef:
				default:
					return false
				}
			}
		default:
			return false
		}
	}
	return true
}
