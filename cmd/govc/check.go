package main

func runCheck(repo, out, prop, tier string, timeout, seed int, verbose, keep bool) int {
	return 2
}
