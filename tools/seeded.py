#!/usr/bin/env python3
"""Runs the checks against the seeded changes kept in /verif/seeded/<id>/ (patch.diff, demo_test.go, meta.json).
Each change is applied in a scratch worktree of /repo (outside /repo and /verif), never committed.
  tools/seeded.py [-confirm] [-all] [ids...]
-confirm: also re-confirm the change (compiles, baseline tests pass, demo fails on changed / passes on original code)
-all:     run every claimed property's check, not only the target property
Writes seeded/RESULTS.json."""
import json, os, subprocess, sys, tempfile, shutil, concurrent.futures
ROOT = os.path.dirname(os.path.dirname(os.path.abspath(__file__)))
import atexit as _ae, shutil as _sh, tempfile as _tf
# private copy of the verifier, so that a rebuild of bin/govc during a long run cannot mix engines
GOVC = os.environ.get("GOVC_BIN")
if not GOVC:
    _d = _tf.mkdtemp(prefix="govc-bin-"); GOVC = os.path.join(_d, "govc")
    _sh.copy2(os.path.join(ROOT, "bin", "govc"), GOVC); _ae.register(lambda: _sh.rmtree(_d, ignore_errors=True))
ENV = dict(os.environ, GOFLAGS="-mod=mod", GOPROXY="off", GOSUMDB="off", GOTOOLCHAIN="local")
args = sys.argv[1:]
confirm = "-confirm" in args; allprops = "-all" in args
ids = [a for a in args if not a.startswith("-")]
claimed = [c["property_id"] for c in json.load(open(os.path.join(ROOT, "MANIFEST.json")))["checks"]]
def sh(cmd, cwd=None, timeout=900):
    return subprocess.run(cmd, cwd=cwd, env=ENV, capture_output=True, text=True, timeout=timeout)
def run(sid):
    d = os.path.join(ROOT, "seeded", sid); meta = json.load(open(os.path.join(d, "meta.json")))
    wt = tempfile.mkdtemp(prefix="govc-seed-"); out = tempfile.mkdtemp(prefix="govc-seed-out-")
    res = {"id": sid, "property": meta["property"]}
    try:
        sh(["git", "-C", "/repo", "worktree", "add", "--detach", "-f", wt, "HEAD"])
        if confirm:
            shutil.copy(os.path.join(d, "demo_test.go"), os.path.join(wt, "zz_seed_demo_test.go"))
            r0 = sh(["go", "test", "-vet=off", "-count=1", "-timeout", "120s", "-run", "^TestSeedDemo$", "."], cwd=wt)
            res["demo_on_original"] = "pass" if r0.returncode == 0 else "FAIL"
        a = sh(["git", "-C", wt, "apply", os.path.join(d, "patch.diff")])
        if a.returncode != 0:
            res["error"] = "patch does not apply: " + a.stderr[:200]; return res
        if confirm:
            r1 = sh(["go", "test", "-vet=off", "-count=1", "-timeout", "120s", "-run", "^TestSeedDemo$", "."], cwd=wt)
            res["demo_on_changed"] = "fail" if r1.returncode != 0 else "PASS(!)"
            os.remove(os.path.join(wt, "zz_seed_demo_test.go"))
            t = sh(["go", "test", "-vet=off", "-count=1", "."], cwd=wt)
            res["baseline_tests"] = "pass" if t.returncode == 0 else "FAIL"
        shutil.copy(os.path.join(ROOT, "known_findings.json"), out)
        props = [meta["property"]] + ([p for p in claimed if p != meta["property"]] if allprops else [])
        res["checks"] = {}
        for p in props:
            if p not in claimed:
                res["checks"][p] = "not claimed"; continue
            r = sh([GOVC, "check", "-repo", wt, "-out", out, "-property", p], timeout=1800)
            viol = [l for l in r.stdout.splitlines() if l.startswith("VIOLATION")]
            if r.returncode == 1 and viol:
                res["checks"][p] = "DETECTED: " + "; ".join(os.path.basename(v.split("replay=")[1].split()[0]) + (" (replayed)" if "no-failing-input-found" not in v else "") for v in viol[:4])
            else:
                res["checks"][p] = f"missed (exit {r.returncode}) " + (r.stdout.strip().splitlines() or [""])[-1][:160]
        return res
    finally:
        sh(["git", "-C", "/repo", "worktree", "remove", "--force", wt]); shutil.rmtree(wt, ignore_errors=True); shutil.rmtree(out, ignore_errors=True)
todo = sorted(x for x in os.listdir(os.path.join(ROOT, "seeded")) if os.path.isdir(os.path.join(ROOT, "seeded", x)) and (not ids or x in ids))
results = {}
rp = os.path.join(ROOT, "seeded", "RESULTS.json")
if os.path.exists(rp): results = json.load(open(rp))
with concurrent.futures.ThreadPoolExecutor(3) as ex:
    for r in ex.map(run, todo):
        print(json.dumps(r)); sys.stdout.flush(); results[r["id"]] = r
json.dump(results, open(rp, "w"), indent=1)
