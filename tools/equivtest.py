#!/usr/bin/env python3
"""Must-pass corpus: behaviour-preserving refactorings (selftest/equivalents). Every check of the listed
properties must NOT report a violation on them (exit 0; exit 2 = undecided is reported separately)."""
import json, os, subprocess, sys, tempfile, shutil, concurrent.futures
ROOT = os.path.dirname(os.path.dirname(os.path.abspath(__file__)))
import atexit as _ae, shutil as _sh, tempfile as _tf
# private copy of the verifier, so that a rebuild of bin/govc during a long run cannot mix engines
GOVC = os.environ.get("GOVC_BIN")
if not GOVC:
    _d = _tf.mkdtemp(prefix="govc-bin-"); GOVC = os.path.join(_d, "govc")
    _sh.copy2(os.path.join(ROOT, "bin", "govc"), GOVC); _ae.register(lambda: _sh.rmtree(_d, ignore_errors=True))
M = json.load(open(os.path.join(ROOT, 'selftest', 'equivalents.json')))
only = set(sys.argv[1:])
def run(m):
    name = m["name"]; patch = os.path.join(ROOT, 'selftest', 'equivalents', name + '.patch')
    wt = tempfile.mkdtemp(prefix="govc-eq-"); out = tempfile.mkdtemp(prefix="govc-eq-out-")
    try:
        subprocess.run(["git", "-C", "/repo", "worktree", "add", "--detach", "-f", wt, "HEAD"], check=True, capture_output=True)
        a = subprocess.run(["git", "-C", wt, "apply", patch], capture_output=True, text=True)
        if a.returncode != 0: return name, [("", "APPLYFAIL " + a.stderr[:100])]
        shutil.copy(os.path.join(ROOT, "known_findings.json"), out)
        res = []
        for prop in m["properties"]:
            r = subprocess.run([GOVC, "check", "-repo", wt, "-out", out, "-property", prop], capture_output=True, text=True)
            viol = [l for l in r.stdout.splitlines() if l.startswith("VIOLATION")]
            if r.returncode == 0: v = "ok"
            elif r.returncode == 2: v = "UNDECIDED " + (r.stdout.strip().splitlines() or [""])[-1][:200]
            else: v = "FALSE-ALARM " + "; ".join(os.path.basename(x.split("replay=")[1].split()[0]) for x in viol[:3])
            res.append((prop, v))
        return name, res
    finally:
        subprocess.run(["git", "-C", "/repo", "worktree", "remove", "--force", wt], capture_output=True)
        shutil.rmtree(wt, ignore_errors=True); shutil.rmtree(out, ignore_errors=True)
todo = [m for m in M if not only or m["name"] in only]
bad = 0
with concurrent.futures.ThreadPoolExecutor(3) as ex:
    for name, res in ex.map(run, todo):
        print(name, res); sys.stdout.flush()
        if any("FALSE-ALARM" in v or "APPLYFAIL" in v for _, v in res): bad += 1
print("false alarms:", bad, "of", len(todo))
sys.exit(1 if bad else 0)
