#!/bin/sh
# hash of everything a check verdict depends on: engine sources, contracts and library sources in /repo's working tree
(cat /verif/cmd/govc/*.go /repo/*.go /verif/known_findings.json 2>/dev/null) | sha256sum | cut -d' ' -f1
