#!/usr/bin/env python3
# Generates /verif/MANIFEST.json from the per-property table below.
import json, subprocess, os
ROOT = os.path.dirname(os.path.dirname(os.path.abspath(__file__)))
ids = [json.loads(l)['id'] for l in open(os.path.join(ROOT, 'properties.jsonl'))]

TECH = "contract-based deductive verification: weakest-precondition style VCs generated from go/ssa of the real code under //@ contracts, discharged by z3/cvc5"

claims = {
 "C05": dict(
   text="Proof, for all field values and all lengths, that each packet builder returns exactly the byte sequence of an independent MQTT 3.1.1 specification encoder (ghost spec functions written from the standard): remaining-length codec, length-prefixed fields, CONNECT (all flag combinations), PUBLISH, SUBSCRIBE, UNSUBSCRIBE, the four acknowledgement packets, PINGREQ/DISCONNECT; the decoder side (unpackString/unpackUint16, PUBLISH Parse: flags, topic, id, payload; acknowledgement Parse: id) returns the fields of the bytes it was given; ValidateMessage rejects an over-long payload or QoS>2 and BaseClient.Publish validates before publishImpl is entered; obligations are discharged per function against callee contracts. Decoder completeness: a PUBLISH whose flags, topic and (for QoS>0) identifier are well-formed is accepted, including an empty payload.",
   note="Trusted: SSA->SMT translation, solvers, append/make allocation semantics, UTF-8 validity via string([]rune(s))==s, readPacket's reassembly of the byte stream is covered for safety and bounds (C06) but not for content equality, caller obligations at the API boundary (topic/filter/client id/user/password <= 65535 bytes, body <= 268435455 bytes, QoS <= 2), input slices do not alias. Integers are mathematical with an overflow obligation at every signed operation.",
   ref="DESIGN.md section 4.C05"),
 "C06": dict(
   text="Proof of panic-freedom (index, slice bounds, make, nil, explicit panic, close of a closed channel, send on a closed channel) of every function under contract, under its stated caller obligations, in particular readPacket, unpackString/unpackUint16, every Parse, the serve loop body and the request functions that consume acknowledgements, for every byte string the transport can deliver; readPacket decodes the fixed header exactly (type, flags, 1-4 length bytes, body) and refuses a fifth length byte with ErrInvalidPacketLength; one packet allocates at most its declared remaining length, which is bounded by 268435455; every malformed class named in the property returns a non-nil error; the reader goroutine stores that error and reports Closed before closing Done().",
   note="Two defects found and fixed (D1 SUBACK shorter than 2 bytes, D2 unbounded length field). Trusted: io.ReadFull/io.Reader contract, user handler code returns.",
   ref="DESIGN.md section 4.C06"),
 "C15": dict(
   text="Proof that newID never returns 0 and returns the low 16 bits of the value produced by its single atomic increment, for every counter value (bit-vector semantics, wrap-around included), plus the window lemma: counter values less than 65536 apart have distinct low halves.",
   note="Trusted: atomic.AddUint32 is atomic and returns the new value (distinct calls see distinct values). Not yet covered: the atomic-only access discipline for idLast and the single newID call per request in subscribe/unsubscribe.",
   ref="DESIGN.md section 4.C15"),
 "C20": dict(
   text="Proof that (*Message).clone returns a freshly allocated message with equal fields and a payload array disjoint from the original's, for all messages; ServeMux.Serve hands every matching handler the result of its own clone call (one per handler, never the caller's message); ServeAsync.Serve clones before starting the goroutine and passes the clone.",
   note="Trusted: handlers receive only what Serve passes them. A nil payload is cloned to an empty non-nil slice (equal content).",
   ref="DESIGN.md section 4.C20"),
}

claims.update({
 "C02": dict(
   text="Proof of the sender-side QoS 2 stage mechanism the exactly-once argument rests on: every error returned before PUBREC carries the PUBLISH-stage retry closure over the same message, every result after PUBREC is nil or carries the PUBREL-stage closure over the same message, the PUBREL stage never packs or writes a PUBLISH and writes at most the PUBREL packet with the message's id, success only after a receive on the channel registered under that id. The task loop never runs a task between noticing a client switch and the new client's Connect having returned.",
   note="The broker-side receiver rules (discard duplicate id, release on PUBREL) are assumed; composing the per-function contracts into 'delivered exactly once' is a paper lemma (DESIGN.md 4.C02). RetryClient.Retry's exact re-queue is verified under C01/C03 (defect D3 found there and fixed). Closure invariants (captured retry variables hold the stage closures over the same message) are checked at the direct call site and assumed for calls through the retry queue.",
   ref="DESIGN.md section 4.C02"),
 "C04": dict(
   text="Proof of the per-packet transition of the serve loop for every packet kind, every flag/body and every content of the QoS 2 buffer: exactly which handler calls and writes happen in an iteration (QoS0: at most one hand-over, no write; QoS1: hand-over then PUBACK with the message id; QoS2: PUBREC, no hand-over, message stored; PUBREL of a stored id: hand-over of the stored message, then PUBCOMP, entry removed; PUBREL of an unknown id and every acknowledgement kind: nothing) with whole-map postconditions on the buffer.",
   note="The induction over the packet sequence (one hand-over per message for any history) is a lemma over the iteration contract, written in DESIGN.md 4.C04, not mechanised. Trusted: handler does not modify the message before returning; io.Writer contract; Parse/Pack callee contracts (discharged under C05/C06).",
   ref="DESIGN.md section 4.C04"),
 "C07": dict(
   text="Proof of the three guarantees G1-G3: requesters (publish QoS1/2, PUBREL stage, subscribe, unsubscribe) register a fresh waiter channel under the request's own packet id before writing and return success only after a receive on that very channel; the serve loop sends an acknowledgement only to the channel looked up under (kind,id), non-blocking, and the five signaller lookups return exactly the registered channel and remove exactly that key (whole-map postcondition); SUBACK count mismatch yields ErrInvalidSubAck and closes the transport, otherwise granted QoS is copied back per filter in request order. Every acknowledgement waiter a request registers is a buffered channel (capacity >= 1), so the reader's non-blocking hand-over cannot lose an acknowledgement that arrives before the requester waits.",
   note="The cross-goroutine composition (a channel is reachable only through its map entry until serve removes it) is a rely/guarantee lemma in DESIGN.md 4.C07; id uniqueness is imported from C15. Channel invariants (waiter channels carry non-nil packets and are never closed) are assumed at receives and are obligations at sends/closes. Ping and Connect waiters are under contract too.",
   ref="DESIGN.md section 4.C07"),
 "C11": dict(
   text="Proof of wait-set contracts for Connect, Ping, publish (both QoS 2 stages), subscribe and unsubscribe: the single blocking select of each call (no default arm) waits on the client's connClosed channel, on Done() of the call's own context and on its own waiter; there is no bare blocking send/receive; the cancel branch returns an error whose cause is that context's Err(), the closed branch ErrClosedTransport; the reader goroutine closes connClosed on every exit path; RetryClient.Disconnect does not block; reconnectClient.Disconnect waits only on the loop's done channel or its context. Application callbacks (ConnState, OnError, Handler.Serve) are invoked with no library mutex held, so a callback that re-enters the client cannot wedge the reader goroutine before it closes Done().",
   note="Restricted claim: 'returns promptly' is liveness and is not decided (needs Transport.Write/Close and callbacks to return).",
   ref="DESIGN.md section 4.C11"),
 "C12": dict(
   text="Proof that publishImpl keeps a caller-supplied id and otherwise assigns one newID result, sets Dup to its dup argument, leaves topic/QoS/retain/payload untouched and writes exactly specPublish(message); BaseClient.Publish passes dup=false; the PUBLISH-stage retry closure re-enters publishImpl with the same message object and dup=true; QoS 0 errors never carry a retry handle; after PUBREC no PUBLISH is packed or written, only PUBREL with the same id.",
   note="The deferred copy made by RetryClient.publish is under contract (C01). Trusted as for C05.",
   ref="DESIGN.md section 4.C12"),
 "C14": dict(
   text="Proof that newTopicFilter accepts exactly the filters valid by a first-order definition of MQTT 4.7.1 over the levels strings.Split returns, and that Match returns exactly the first-order level-wise definition ('+' one level, '#' parent and descendants, literal otherwise), for all strings and all depths (quantified loop invariants); ServeMux.Handle registers exactly when the filter is valid, at the end, keeping earlier entries in order; ServeMux.Serve visits every entry in registration order and calls exactly the handlers whose filter matches the message topic.",
   note="Trusted: strings.Split is a deterministic function returning at least one part; strings.Contains(s, one byte) iff some index holds it. The ServeMux representation invariant (every stored filter is valid) is established by Handle's validation but its preservation across append is not mechanised: it is a precondition of Serve.",
   ref="DESIGN.md section 4.C14"),
 "C19": dict(
   text="Proof of the wrappers: nil and io.EOF pass through, otherwise a fresh *Error with Err == cause (and for wrapErrorWithRetry a fresh *errorWithRetry embedding it whose retry function is the one given); (*Error).Unwrap returns the cause; (*Error).Is: itself, nil target, direct cause, no cause; (*requestContext).Err returns a fresh RequestTimeoutError wrapping the context's error; every interrupted QoS>=1 publish, subscribe, unsubscribe returns an error implementing ErrorWithRetry whose handle is the closure re-issuing that same request (same message object / same filter slices) on the client it is given; documented sentinel causes (ErrClosedTransport, ctx.Err(), ErrNotConnected, ErrInvalidSubAck).",
   note="(*Error).Is beyond the first link of the chain (reflect fallback, arbitrary Unwrap chains) is not specified. Assumption A-W: Transport.Write never returns io.EOF; error values on a chain have comparable dynamic types.",
   ref="DESIGN.md section 4.C19"),
})

claims.update({
 "C01": dict(
   text="Proof of the queue mechanism contracts behind 'nothing accepted is lost': pushTask appends exactly one task (whole-sequence postcondition) unless stopped; Publish/Subscribe/Unsubscribe push the task closure over the caller's arguments; RetryClient.publish/subscribe/unsubscribe either transmit (queue empty) or append a deferred closure behind the queue; a failed QoS>0 request appends its retry handle and marks the connection for closing; every interrupted base-client request returns a retry error whose handle re-issues the same request; Retry re-queues exactly continuation + not-yet-attempted entries (exact sequence equality). pushTask wakes the task loop (non-blocking send on the task channel); Publish/Subscribe/Unsubscribe never report success when the task was refused; SetClient signals the previous client's switch channel and starts exactly one task loop.",
   note="Liveness ('eventually acknowledged'), lost-wakeup freedom of chTask and the cross-goroutine composition (invariant I1, DESIGN.md 4.C01) are not decided. The task loop, Resubscribe, Retry and the reconnect loop are under contract. Closure invariants are checked at direct calls and assumed for entries invoked from the queue (fntype retryFn).",
   ref="DESIGN.md section 4.C01"),
 "C03": dict(
   text="Proof that every queue transformer preserves order: append-only with exact prefix equality, direct transmission only when the retry queue is empty, deferred requests appended behind the queue, Retry invokes old[0], old[1], ... in index order and re-queues continuation followed by the untouched tail, no goroutine is started by a task closure.",
   note="Per-connection wire order as a whole-history statement is a paper lemma (I2, DESIGN.md 4.C03). Task-loop FIFO pop and the reconnect ordering Resubscribe-before-Retry are under contract.",
   ref="DESIGN.md section 4.C03"),
 "C08": dict(
   text="Proof for the bookkeeping functions: subscriptions.applyTo appends exactly its argument; unsubscriptions.applyTo is panic-free, never grows the list, preserves duplicate-freedom and (on a duplicate-free list) removes every listed filter; subscribe/unsubscribe closures apply the bookkeeping exactly once, with the request's own arguments, before the request is sent. One recorded finding: subscriptions.applyTo does not preserve duplicate-freedom (D7).",
   note="Known findings D7 (duplicate entries) and D8 (deferred unsubscribe overtaken by Resubscribe) are reported as KNOWN-FINDING; D6 was fixed. Resubscribe and the resubscribe condition of the reconnect loop are under contract. Convergence as a whole-history statement is a paper lemma.",
   ref="DESIGN.md section 4.C08"),
 "C16": dict(
   text="Proof of the connection state machine pieces: connStateUpdate (Disconnected absorbing, callback exactly when the state changed, with the new state and Err()), SetErrorOnce (first error wins), Connect reports Active exactly once and only on an accepting CONNACK, the reader goroutine's exit sequence serve -> Close -> store error unless Disconnected -> Closed -> close(Done), Disconnect sets Disconnected before writing DISCONNECT, Done() returns connClosed which only the reader goroutine closes. In the reconnecting client every keep-alive goroutine captures a variable that belongs to its own loop iteration, so it can only ever touch the connection it was started for.",
   note="Lock-guarded fields are modelled as arbitrary at each acquisition (values 'at lock time' via guardVal). The keep-alive goroutine of the reconnecting client is under contract (own-client error; defect D5 found there and fixed). The relative order of Active and Closed when CONNACK and connection end race is not decided.",
   ref="DESIGN.md section 4.C16"),
 "C18": dict(
   text="Proof that every request issued by a task closure (first transmissions and, after the fix, retransmissions) uses a context produced by requestContext from the task context, that a failing request is reported through onError, queued with its retry handle and marks the connection for closing (newRetryByError), and that requestContext wraps WithTimeout(ctx, ResponseTimeout) when a timeout is configured. The 'do not queue' branch of the task closures reacts only to cancellation of the caller's context; a response timeout (the context's error is a RequestTimeoutError) keeps the request queued.",
   note="The task loop closing the client when newRetryByError is set and (*requestContext).Err are under contract. Defect D9 (retransmissions had no timeout) was found here and fixed. Real time is not modelled.",
   ref="DESIGN.md section 4.C18"),
})

claims.update({
 "C09": dict(
   text="Proof of per-iteration contracts of the reconnect loop for every outcome of dial / CONNECT / connection end: exactly one dial per pass; the wait before the next dial is time.After(w) with w = base after a success and w = the carried back-off otherwise, and the carried back-off becomes min(2w, max) (inductive invariant: it never drops below min(base, max)); at most one CONNECT per dialled client, with the caller's client id and option slice, after SetClient of that client; whenever a client was dialled its transport is closed and its Done() channel has been received from before the wait starts (one live transport); the loop returns only through a select that chose ctx.Done(), the disconnected channel or a connection end with Err()==nil, every continue/stop decision is a select that also watches ctx.Done() and the disconnected channel, and c.done is closed on exit. Disconnect closes the disconnected channel first, disconnects the retry client and returns only through a select on the loop's done channel or its context. Each CONNECT of the loop runs under the per-attempt context produced by timeoutContext (no unbounded wait for CONNACK when a timeout is configured).",
   note="'Never dials again after Disconnect' and 'Disconnect returns' as whole-history / liveness statements are not decided: Go's select may pick the expired timer when the stop request is ready at the same instant, and termination needs Dialer/Transport calls to return. Observation (not part of C09): a dial that completes after Disconnect leaves its connection open when the loop exits. Trusted: Connect and Disconnect are called once per reconnectClient; sync.Once runs its function at most once; Dialer returns a client with a transport on success; durations are below 2^62 ns and non-negative (precondition).",
   ref="DESIGN.md section 4.C09"),
 "C13": dict(
   text="Proof for KeepAlive with a loop contract: every iteration is tick receive -> WithTimeout(ctx, timeout) -> one Ping with that context, and continues only if Ping returned nil; it returns only after a failing Ping, and classifies: parent context done (checked first) -> wraps ctx.Err(), never ErrPingTimeout; else ping context done -> wraps ErrPingTimeout; else the ping error itself. Reconnect side: the loop starts exactly one keep-alive goroutine per successful connection iff PingInterval>0, bound to that connection's client, interval and timeout; on a keep-alive error the goroutine records the error on and closes its own connection; the loop re-dials after the connection ended with a non-nil Err(). Ping registers its PINGRESP waiter (under the signaller's lock) before the PINGREQ is written and waits on exactly that channel.",
   note="Real time is not modelled ('every interval', 'within the timeout' are the ticker's and context's contracts). (*BaseClient).Ping's wait set is verified under C11. Trusted: context/timer semantics, Client.Ping returns.",
   ref="DESIGN.md section 4.C13"),
})

claims.update({
 "C17": dict(
   text="Proof of the handler propagation chain, function by function: RetryClient.Handle stores the handler and forwards it to the client that is current under the same lock hold; RetryClient.Connect installs the stored handler (value read under the lock) on the current client before calling that client's Connect; BaseClient.Handle sets exactly the handler field; BaseClient.Connect/init leave the handler field untouched (checked frame); the reader loop hands every delivered message to the handler field's value read under the lock in that iteration; the reconnect loop calls RetryClient.Connect exactly once for every successfully dialled client, after SetClient of that client. The install in RetryClient.Connect and the store-and-forward in RetryClient.Handle each happen inside one hold of the client's mutex, so neither can overwrite the other with a stale handler.",
   note="'No message is dropped merely because of a reconnect' as a whole-history statement is the composition of these contracts (DESIGN.md 4.C17) and is not mechanised; messages that arrive before the application registers any handler are dropped by design (handler == nil). Lock-guarded fields are arbitrary at each acquisition.",
   ref="DESIGN.md section 4.C17"),
})

claims.update({
 "C10": dict(
   text="Proof of a lock/ownership discipline over every field of the shared types (BaseClient, signaller, RetryClient, reconnectClient, firstError): each field is classified (guarded by named mutexes with read/write modes, confined to the single task goroutine, atomic-only, configuration written only before the object is shared, or itself a lock); at every load and store of such a field, on every path of every function under contract and of the functions inlined into them, an obligation requires the classified protection given the mutexes held on that path; every Write on the transport stored in BaseClient.Transport requires muWrite, so the wire is a concatenation of whole packets (write() itself is under contract: it holds muWrite across all chunks); functions running in a goroutine role are called only from that role. A completeness scan reports any package function that touches shared state without being covered. Four data races were found this way, confirmed with the race detector and repaired (D10-D13).",
   note="This is a sufficient discipline for data-race freedom of the classified fields, not a proof over all interleavings: it trusts Go's mutex/atomic/go-statement happens-before, that one task goroutine exists per RetryClient and one reader per BaseClient (Connect / first SetClient run once), that closures with role task are only stored in the task/retry queues, and 'stable' fields (sig, connClosed, chTask) are treated as unchanged by the functional contracts. ServeMux and the dialer helper types are not shared types in this sense (ServeMux is documented as not safe for concurrent Handle). Objects are considered unshared until they escape the creating function.",
   ref="DESIGN.md section 4.C10"),
})

checks = []
for pid in ids:
    if pid not in claims:
        continue
    c = claims[pid]
    checks.append({
        "property_id": pid,
        "quick_cmd": f"bin/govc check -property {pid} -tier quick",
        "thorough_cmd": f"tools/thorough.sh {pid}",
        "evidence_file": f"/verif/evidence/{pid}.json",
        "replay_cmd_template": "cat {path}",
        "engine": "govc",
        "level_claimed": {"category": "proof", "text": c["text"], "design_ref": c["ref"]},
        "level_note": c["note"],
        "technique": TECH,
    })

hooks_commits = subprocess.run(["git", "-C", "/repo", "log", "--format=%H %s"], capture_output=True, text=True).stdout.splitlines()
src = [l.split()[0] for l in hooks_commits if l.split(' ', 1)[1].startswith("verif:")]

m = {
 "version": 1,
 "setup_cmd": "cd /verif && GOFLAGS=-mod=mod GOPROXY=off GOSUMDB=off GOTOOLCHAIN=local go build -o bin/govc ./cmd/govc",
 "hooks": {"guard": "verif",
           "enable": "govc loads /repo with -tags=verif; the only hook files are comment-only contract files verif_contracts_*.go (//go:build verif)",
           "baseline_off_cmd": "cd /repo && go test -vet=off -count=1 ./...",
           "source_commits": src, "add_only": True},
 "engines": [{"name": "govc", "path": "/verif/cmd/govc", "serves_properties": [c["property_id"] for c in checks],
              "kind_free_text": "VC generator over go/ssa of the real code + contracts in //@ comments (ghost Go clauses compiled and executed symbolically by the same engine); obligations raced on z3 4.8.12, z3 5.1.0, cvc5 1.0.3; counterexamples replayed with go test -overlay"}],
 "checks": checks,
 "notes": "See DESIGN.md. known_findings.json lists recorded findings and fixed defects.",
 "not_applicable": [{"property_id": i, "reason": "contracts for this property are not written yet (engine feature or contract work pending, DESIGN.md section 7); no weaker technique is substituted"} for i in ids if i not in claims],
}
json.dump(m, open(os.path.join(ROOT, 'MANIFEST.json'), 'w'), indent=1)
print("claimed:", [c["property_id"] for c in checks])
