#!/usr/bin/env python3
# Generates /verif/MANIFEST.json from the per-property table below.
import json, subprocess, os
ROOT = os.path.dirname(os.path.dirname(os.path.abspath(__file__)))
ids = [json.loads(l)['id'] for l in open(os.path.join(ROOT, 'properties.jsonl'))]

TECH = "contract-based deductive verification: weakest-precondition style VCs generated from go/ssa of the real code under //@ contracts, discharged by z3/cvc5"

claims = {
 "C05": dict(
   text="Proof, for all field values and all lengths, that each packet builder returns exactly the byte sequence of an independent MQTT 3.1.1 specification encoder (ghost spec functions written from the standard): remaining-length codec, length-prefixed fields, PUBLISH, the four acknowledgement packets; obligations are discharged per function against callee contracts.",
   note="Not yet under contract: CONNECT/SUBSCRIBE/UNSUBSCRIBE Pack, PUBLISH Parse, ValidateMessage ordering, readPacket decoding (listed in DESIGN.md). Trusted: SSA->SMT translation, solvers, append/make allocation semantics, caller obligations at the API boundary (topic <= 65535 bytes, body <= 268435455 bytes, QoS <= 2), input slices do not alias.",
   ref="DESIGN.md section 4.C05"),
 "C06": dict(
   text="Proof of panic-freedom (index, slice bounds, nil, explicit panic) of the acknowledgement/CONNACK/PINGRESP parsers for every flag byte and every body, plus: every malformed class named in the property returns a non-nil error.",
   note="Not yet under contract: readPacket, PUBLISH Parse / unpackString, serve loop, reader goroutine. Trusted as for C05.",
   ref="DESIGN.md section 4.C06"),
 "C15": dict(
   text="Proof that newID never returns 0 and returns the low 16 bits of the value produced by its single atomic increment, for every counter value (bit-vector semantics, wrap-around included), plus the window lemma: counter values less than 65536 apart have distinct low halves.",
   note="Trusted: atomic.AddUint32 is atomic and returns the new value (distinct calls see distinct values). Not yet covered: the atomic-only access discipline for idLast and the single newID call per request in subscribe/unsubscribe.",
   ref="DESIGN.md section 4.C15"),
 "C20": dict(
   text="Proof that (*Message).clone returns a freshly allocated message with equal fields and a payload array that is disjoint from the original's, for all messages.",
   note="Not yet under contract: the call sites in ServeMux.Serve / ServeAsync.Serve (one clone per handler).",
   ref="DESIGN.md section 4.C20"),
}

checks = []
for pid in ids:
    if pid not in claims:
        continue
    c = claims[pid]
    checks.append({
        "property_id": pid,
        "quick_cmd": f"bin/govc check -property {pid} -tier quick",
        "thorough_cmd": f"bin/govc check -property {pid} -tier thorough",
        "evidence_file": f"/verif/evidence/{pid}.json",
        "replay_cmd_template": "cat {path}",
        "engine": "govc",
        "level_claimed": {"category": "proof", "text": c["text"], "design_ref": c["ref"]},
        "level_note": c["note"],
        "technique": TECH,
    })

hooks_commits = subprocess.run(["git", "-C", "/repo", "log", "--format=%H %s"], capture_output=True, text=True).stdout.splitlines()
src = [l.split()[0] for l in hooks_commits if l.split(' ', 1)[1].startswith("verif:")]

m = {
 "version": 1,
 "setup_cmd": "cd /verif && GOFLAGS=-mod=mod GOPROXY=off GOSUMDB=off GOTOOLCHAIN=local go build -o bin/govc ./cmd/govc",
 "hooks": {"guard": "verif",
           "enable": "govc loads /repo with -tags=verif; the only hook files are comment-only contract files verif_contracts_*.go (//go:build verif)",
           "baseline_off_cmd": "cd /repo && go test -vet=off -count=1 ./...",
           "source_commits": src, "add_only": True},
 "engines": [{"name": "govc", "path": "/verif/cmd/govc", "serves_properties": [c["property_id"] for c in checks],
              "kind_free_text": "VC generator over go/ssa of the real code + contracts in //@ comments (ghost Go clauses compiled and executed symbolically by the same engine); obligations raced on z3 4.8.12, z3 5.1.0, cvc5 1.0.3; counterexamples replayed with go test -overlay"}],
 "checks": checks,
 "notes": "See DESIGN.md. known_findings.json lists recorded findings and fixed defects.",
 "not_applicable": [{"property_id": i, "reason": "contracts for this property are not written yet (engine feature or contract work pending, DESIGN.md section 7); no weaker technique is substituted"} for i in ids if i not in claims],
}
json.dump(m, open(os.path.join(ROOT, 'MANIFEST.json'), 'w'), indent=1)
print("claimed:", [c["property_id"] for c in checks])
