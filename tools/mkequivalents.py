#!/usr/bin/env python3
"""Builds the must-fail corpus: each entry is a small change to /repo that breaks a property
while compiling (and, where noted, passing the 113 baseline tests). Patches are produced in a
scratch worktree outside /repo and /verif; nothing is ever committed to /repo."""
import json, os, subprocess, sys, tempfile, shutil
ROOT = "/verif"
ENV = dict(os.environ, GOFLAGS="-mod=mod", GOPROXY="off", GOSUMDB="off", GOTOOLCHAIN="local")
M = json.load(open(os.path.join(ROOT, 'selftest', 'equivalents.json')))
only = set(sys.argv[1:])
wt = tempfile.mkdtemp(prefix="govc-mut-")
subprocess.run(["git", "-C", "/repo", "worktree", "add", "--detach", "-f", wt, "HEAD"], check=True, capture_output=True)
try:
    for m in M:
        name = m["name"]
        out = os.path.join(ROOT, 'selftest', 'equivalents', name + '.patch')
        if only and name not in only: continue
        if os.path.exists(out) and not only: continue
        subprocess.run(["git", "-C", wt, "checkout", "--", "."], check=True)
        for e in m["edits"]:
            p = os.path.join(wt, e["file"]); s = open(p).read()
            if s.count(e["old"]) != 1:
                print("!!", name, "pattern occurs", s.count(e["old"]), "times in", e["file"]); break
            open(p, 'w').write(s.replace(e["old"], e["new"]))
        else:
            b = subprocess.run(["go", "build", "./..."], cwd=wt, env=ENV, capture_output=True, text=True)
            if b.returncode != 0:
                print("!!", name, "does not compile:", b.stderr[:300]); continue
            t = subprocess.run(["go", "test", "-vet=off", "-count=1", "."], cwd=wt, env=ENV, capture_output=True, text=True)
            d = subprocess.run(["git", "-C", wt, "diff"], capture_output=True, text=True).stdout
            open(out, 'w').write(d)
            print(name, "tests:", "pass" if t.returncode == 0 else "FAIL (suite catches it)")
            m["tests_pass"] = t.returncode == 0
    json.dump(M, open(os.path.join(ROOT, 'selftest', 'equivalents.json'), 'w'), indent=1)
finally:
    subprocess.run(["git", "-C", "/repo", "worktree", "remove", "--force", wt])
    shutil.rmtree(wt, ignore_errors=True)
