#!/usr/bin/env python3
"""Automatic mutation run (find holes in contracts or in the engine, not part of any registered check).
Generic operators are applied line by line to the library's non-test Go files; a mutant is kept when the
package still builds and the 113-test suite still passes; then the contracts of the enclosing function (and
its closures) are re-verified with `govc func`. Survivors are listed for manual triage (equivalent mutant,
behaviour outside every property, or a hole).   tools/automutate.py [-n N] [-seed S] [file.go ...]
Scratch worktrees live outside /repo and /verif and are removed."""
import json, os, re, random, subprocess, sys, tempfile, shutil, concurrent.futures
ROOT = "/verif"
import atexit as _ae, shutil as _sh, tempfile as _tf
# private copy of the verifier, so that a rebuild of bin/govc during a long run cannot mix engines
GOVC = os.environ.get("GOVC_BIN")
if not GOVC:
    _d = _tf.mkdtemp(prefix="govc-bin-"); GOVC = os.path.join(_d, "govc")
    _sh.copy2(os.path.join(ROOT, "bin", "govc"), GOVC); _ae.register(lambda: _sh.rmtree(_d, ignore_errors=True))
ENV = dict(os.environ, GOFLAGS="-mod=mod", GOPROXY="off", GOSUMDB="off", GOTOOLCHAIN="local")
args = sys.argv[1:]
N = 120; seed = 1; files = []
i = 0
while i < len(args):
    if args[i] == "-n": N = int(args[i+1]); i += 2
    elif args[i] == "-seed": seed = int(args[i+1]); i += 2
    elif args[i] == "-args": i += 1
    else: files.append(args[i]); i += 1
if not files:
    files = [f for f in sorted(os.listdir("/repo")) if f.endswith(".go") and not f.endswith("_test.go") and not f.startswith("verif_contracts") and f not in ("dialer.go",)]
argmode = "-args" in sys.argv
contracted = subprocess.run([GOVC, "list"], capture_output=True, text=True).stdout.split("\n")
contracted = [c for c in contracted if c]
OPS = [(r'==', '!='), (r'!=', '=='), (r'<=', '<'), (r'>=', '>'), (r'(?<![<>=!])<(?![<=-])', '<='), (r'(?<![<>=!-])>(?![>=])', '>='),
       (r'&&', '||'), (r'\|\|', '&&'), (r'\btrue\b', 'false'), (r'\bfalse\b', 'true'), (r'\+ 1\b', '- 1'), (r'- 1\b', '+ 1'),
       (r'\bcli\.', 'c.'), (r'\bctx2\b', 'ctx'), (r'\.RLock\(\)', '.Lock()'), (r'i\+1:', 'i:')]
def funcname(lines, k):
    for j in range(k, -1, -1):
        m = re.match(r'^func (?:\((\w+) (\*?)(\w+)\) )?(\w+)\(', lines[j])
        if m:
            if m.group(3):
                return ("(*%s).%s" if m.group(2) else "(%s).%s") % (m.group(3), m.group(4))
            return m.group(4)
    return None
cands = []
for f in files:
    lines = open("/repo/"+f).read().split("\n")
    infunc = False
    for k, l in enumerate(lines):
        s = l.strip()
        if not s or s.startswith("//") or s.startswith("import") or s.startswith("package"): continue
        fn = funcname(lines, k)
        if not fn or l.startswith("func "): continue
        names = [c for c in contracted if c == fn or c.startswith(fn+"$")]
        if not names: continue
        # statement deletion: simple statements only
        if re.match(r'^[\w\.\[\]\*\(\), ]+(:?=|\+=|\*=|\+\+|--)', s) or re.match(r'^(defer )?[\w\.]+\([^{]*\)$', s):
            if not s.startswith("return") and ":=" not in s:
                cands.append((f, k, "delete", l, None, fn, names))
        # argument perturbation: innermost call argument lists on the line
        if argmode and not s.startswith("func ") and not s.startswith("return func"):
            for m in re.finditer(r'(?<=[\w\])])\(([^()]*)\)', l):
                args = [a for a in m.group(1).split(",")]
                if not m.group(1).strip() or any('"' in a for a in args): continue
                vs = []
                for i in range(len(args) - 1):
                    sw = args[:]; sw[i], sw[i+1] = " " + sw[i+1].strip(), " " + sw[i].strip()
                    sw[0] = sw[0].strip(); vs.append(("swapargs", sw))
                for i, a in enumerate(args):
                    a0 = a.strip()
                    if re.match(r'^[A-Za-z_][\w\.]*$', a0):
                        for rep in ("nil", "0", a0 + "[1:]", a0 + "+1", "!" + a0):
                            r2 = args[:]; r2[i] = (" " if i else "") + rep; vs.append(("arg:" + rep.replace(a0, "x"), r2))
                for op, v in vs:
                    nl = l[:m.start(1)] + ",".join(v) + l[m.end(1):]
                    if nl != l: cands.append((f, k, op, l, nl, fn, names))
        for pat, rep in ([] if argmode else OPS):
            for m in re.finditer(pat, l):
                if '"' in l[:m.start()] and l[:m.start()].count('"') % 2 == 1: continue
                nl = l[:m.start()] + rep + l[m.end():]
                cands.append((f, k, pat+"->"+rep, l, nl, fn, names))
random.Random(seed).shuffle(cands)
cands = cands[:N*4]
def run(c):
    f, k, op, old, new, fn, names = c
    wt = tempfile.mkdtemp(prefix="govc-am-")
    try:
        subprocess.run(["git", "-C", "/repo", "worktree", "add", "--detach", "-f", wt, "HEAD"], check=True, capture_output=True)
        p = os.path.join(wt, f); lines = open(p).read().split("\n")
        if lines[k] != old: return None
        if new is None: del lines[k]
        else: lines[k] = new
        open(p, "w").write("\n".join(lines))
        b = subprocess.run(["go", "build", "./..."], cwd=wt, env=ENV, capture_output=True, text=True)
        if b.returncode != 0: return None
        t = subprocess.run(["go", "test", "-vet=off", "-count=1", "-timeout", "120s", "."], cwd=wt, env=ENV, capture_output=True, text=True)
        if t.returncode != 0: return ("tests", c)
        r = subprocess.run([GOVC, "func", "-repo", wt, "-timeout", "20"] + names, capture_output=True, text=True, timeout=1200)
        fails = [l for l in r.stdout.splitlines() if l.lstrip().startswith("FAIL")]
        real = [l for l in fails if "#cover." not in l]
        soft = [l for l in r.stdout.splitlines() if "PROBLEM" in l or "UNDECIDED" in l] + [l for l in fails if "#cover." in l]
        first = [l.strip()[:160] for l in (real or soft)][:1]
        # a failed obligation is a detection; only a vacuity alarm or an unevaluable contract is "undecided" (not a detection)
        return ("killed" if real else ("undecided" if soft or r.returncode != 0 else "SURVIVED"), c, first)
    except Exception as e:
        return ("error", c, str(e)[:100])
    finally:
        subprocess.run(["git", "-C", "/repo", "worktree", "remove", "--force", wt], capture_output=True); shutil.rmtree(wt, ignore_errors=True)
stats = {"tests": 0, "killed": 0, "undecided": 0, "SURVIVED": 0, "error": 0}
out = []
done = 0
with concurrent.futures.ThreadPoolExecutor(4) as ex:
    for r in ex.map(run, cands):
        if r is None: continue
        stats[r[0]] += 1
        if r[0] in ("killed", "undecided", "SURVIVED", "error"):
            f, k, op, old, new, fn, names = r[1]
            rec = {"verdict": r[0], "file": f, "line": k+1, "op": op, "old": old.strip(), "new": (new or "<deleted>").strip(), "func": fn, "first": (r[2] if len(r) > 2 else "")}
            out.append(rec)
            if r[0] != "killed": print(json.dumps(rec)); sys.stdout.flush()
            done += 1
        if done >= N: break
print("stats:", stats)
json.dump(out, open(ROOT+"/selftest/automutate_last.json", "w"), indent=1)
