#!/usr/bin/env python3
"""Records, for every function under contract, the parameter names its clauses use (`//@   params recv a b`),
taken from the current tree. With that line a later renaming of a parameter in the code does not invalidate
the contract: clauses see parameters by position under the recorded names. Run on the UNCHANGED tree only."""
import os, re, subprocess, glob
ROOT = os.path.dirname(os.path.dirname(os.path.abspath(__file__)))
out = subprocess.run([os.path.join(ROOT, "bin/govc"), "params"], capture_output=True, text=True).stdout
names = dict(l.split("\t") for l in out.strip().split("\n") if "\t" in l)
n = 0
for f in glob.glob("/repo/verif_contracts_*.go"):
    lines = open(f).read().split("\n"); res = []
    i = 0
    while i < len(lines):
        l = lines[i]; res.append(l)
        m = re.match(r'^//\s?@ func (\S.*?)\s*$', l)
        if m and m.group(1) in names:
            nxt = lines[i+1] if i+1 < len(lines) else ""
            if re.match(r'^//\s?@\s+params\b', nxt):
                res.append("//@   params " + names[m.group(1)]); i += 1
            else:
                res.append("//@   params " + names[m.group(1)])
            n += 1
        i += 1
    open(f, "w").write("\n".join(res))
print("params lines written:", n)
