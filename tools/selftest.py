#!/usr/bin/env python3
"""Runs the must-fail corpus: every mutant must make the check of its property exit 1 with a
VIOLATION line (and, if given, name the expected obligation). Runs in scratch worktrees."""
import json, os, subprocess, sys, tempfile, shutil, concurrent.futures
ROOT = os.path.dirname(os.path.dirname(os.path.abspath(__file__)))
import atexit as _ae, shutil as _sh, tempfile as _tf
# private copy of the verifier, so that a rebuild of bin/govc during a long run cannot mix engines
GOVC = os.environ.get("GOVC_BIN")
if not GOVC:
    _d = _tf.mkdtemp(prefix="govc-bin-"); GOVC = os.path.join(_d, "govc")
    _sh.copy2(os.path.join(ROOT, "bin", "govc"), GOVC); _ae.register(lambda: _sh.rmtree(_d, ignore_errors=True))
M = json.load(open(os.path.join(ROOT, 'selftest', 'mutants.json')))
only = set(sys.argv[1:])
def run(m):
    name = m["name"]
    patch = os.path.join(ROOT, 'selftest', 'mutants', name + '.patch')
    if not os.path.exists(patch): return name, "NOPATCH", ""
    wt = tempfile.mkdtemp(prefix="govc-st-"); out = tempfile.mkdtemp(prefix="govc-st-out-")
    try:
        subprocess.run(["git", "-C", "/repo", "worktree", "add", "--detach", "-f", wt, "HEAD"], check=True, capture_output=True)
        a = subprocess.run(["git", "-C", wt, "apply", patch], capture_output=True, text=True)
        if a.returncode != 0: return name, "APPLYFAIL", a.stderr
        shutil.copy(os.path.join(ROOT, "known_findings.json"), out)
        res = []
        for prop in m["properties"]:
            r = subprocess.run([GOVC, "check", "-repo", wt, "-out", out, "-property", prop], capture_output=True, text=True)
            viol = [l for l in r.stdout.splitlines() if l.startswith("VIOLATION")]
            ok = r.returncode == 1 and viol
            if ok and m.get("obligation"):
                ok = any(mangle(m["obligation"]) in v for v in viol)
            res.append((prop, "DETECTED" if ok else f"MISSED(exit {r.returncode})", r.stdout.strip().splitlines()[-1:] ))
        return name, res, ""
    finally:
        subprocess.run(["git", "-C", "/repo", "worktree", "remove", "--force", wt], capture_output=True)
        shutil.rmtree(wt, ignore_errors=True); shutil.rmtree(out, ignore_errors=True)
def mangle(s):
    return ''.join(c if c.isalnum() else '_' for c in s)
todo = [m for m in M if not only or m["name"] in only or set(m["properties"]) & only]
bad = 0
with concurrent.futures.ThreadPoolExecutor(4) as ex:
    for name, res, err in ex.map(run, todo):
        print(name, res, err)
        if isinstance(res, str) or any("MISSED" in r[1] for r in res): bad += 1
print("missed/failed:", bad, "of", len(todo))
sys.exit(1 if bad else 0)
