#!/usr/bin/env python3
"""Tag audit. For every property, `govc deps` asks the solver (unsat cores) which callee clauses the
proofs of that property's obligations use. A callee clause that is used but does not carry the
property's tag is a gap: a change breaking it would be reported by a sibling property's check only.
    tools/deptags.py            # report the gaps
    tools/deptags.py -apply     # add the missing tags to /repo/verif_contracts_*.go (working tree)
Repeat until no gap is left (a newly tagged clause brings its own dependencies)."""
import json, os, re, subprocess, sys, concurrent.futures
ROOT = os.path.dirname(os.path.dirname(os.path.abspath(__file__)))
GOVC = os.environ.get("GOVC_BIN", os.path.join(ROOT, "bin", "govc"))
props = ["C%02d" % i for i in range(1, 21)]
only = [a for a in sys.argv[1:] if not a.startswith("-")]
if only: props = only
def run(p):
    r = subprocess.run([GOVC, "deps", "-property", p], capture_output=True, text=True)
    try: return p, json.loads(r.stdout)
    except Exception as e: return p, {"error": (r.stdout + r.stderr)[-400:]}
# clauses that are recorded known findings stay under the property they are recorded for
skip = set()
kf = json.load(open(os.path.join(ROOT, "known_findings.json")))
for k in (kf.get("findings", []) if isinstance(kf, dict) else kf):
    if k.get("status") == "known":
        o = k["obligation"]; fn, _, rest = o.partition("#"); skip.add((fn, rest.split(".")[-1]))
missing = {}   # (file, line) -> {"props": set, "callee":..., "label":..., "tags":...}
with concurrent.futures.ThreadPoolExecutor(3) as ex:
    for p, d in ex.map(run, props):
        if "error" in d: print(p, "ERROR", d["error"]); continue
        gaps = [x for x in d["deps"] if not x["has_tag"] and x.get("line") and x.get("tags") is not None and (x["callee"], x["label"]) not in skip]
        print(p, "obligations", d["obligations"], "without core", d["without_core"], "callee clauses used", len(d["deps"]), "gaps", len(gaps))
        for x in gaps:
            k = x["line"]
            m = missing.setdefault(k, {"props": set(), "callee": x["callee"], "label": x["label"] or str(x["clause_index"]), "tags": x["tags"], "used_by": {}})
            m["props"].add(p); m["used_by"][p] = x["used_by"][:2]
for k in sorted(missing):
    m = missing[k]
    print("GAP %s %s#%s has %s, used by %s" % (k, m["callee"], m["label"], ",".join(m["tags"]), "; ".join("%s (%s)" % (p, ", ".join(u)) for p, u in sorted(m["used_by"].items()))))
if "-apply" in sys.argv:
    byfile = {}
    for k, m in missing.items():
        f, ln = k.rsplit(":", 1); byfile.setdefault(f, []).append((int(ln), m))
    for f, items in byfile.items():
        path = os.path.join("/repo", os.path.basename(f)); lines = open(path).read().split("\n")
        for ln, m in items:
            l = lines[ln-1]
            mm = re.match(r'^(//\s?@\s+ensures)(\[[^\]]*\])?(\s.*)$', l)
            if not mm: print("cannot edit", k, l[:80]); continue
            tags = sorted(set(m["tags"]) | m["props"])
            lines[ln-1] = mm.group(1) + "[" + ",".join(tags) + "]" + mm.group(3)
        open(path, "w").write("\n".join(lines))
    print("applied", sum(len(v) for v in byfile.values()), "edits")
