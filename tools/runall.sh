#!/bin/sh
# Runs the quick command of every claimed check; prints the failures. Use before committing.
cd /verif
fail=0
for p in $(python3 -c "import json;print(' '.join(c['property_id'] for c in json.load(open('MANIFEST.json'))['checks']))"); do
  out=$(timeout 1200 ./bin/govc check -property $p 2>&1); rc=$?
  echo "$p rc=$rc $(echo "$out" | grep -v KNOWN | tail -1 | cut -c1-120)"
  [ $rc -ne 0 ] && fail=1
done
[ $fail -eq 0 ] && tools/statehash.sh > .runall_ok
exit $fail
