#!/usr/bin/env python3
"""Debug helper: smallest prefix of the assertions of an SMT file that is unsat."""
import sys,subprocess
src=open(sys.argv[1]).read().split('\n')
pre=[l for l in src if not l.startswith('(assert ') and not l.startswith('(check-sat') and not l.startswith('(get-value')]
asserts=[l for l in src if l.startswith('(assert ')]
def unsat(n):
    open('/tmp/fu.smt2','w').write('\n'.join(pre+asserts[:n]+['(check-sat)']))
    r=subprocess.run(['z3','-T:10','/tmp/fu.smt2'],capture_output=True,text=True).stdout
    return r.startswith('unsat')
lo,hi=0,len(asserts)
if not unsat(hi): print("whole set not unsat"); sys.exit()
while lo<hi:
    mid=(lo+hi)//2
    if unsat(mid): hi=mid
    else: lo=mid+1
print("first unsat prefix length",lo,"of",len(asserts)); print(asserts[lo-1][:3000])
