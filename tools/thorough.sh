#!/bin/sh
# Thorough tier for one property:
#  1. bin/govc check -tier thorough  (every obligation agreed by all three solvers, longer timeouts) on /repo's working tree;
#     its exit code and VIOLATION / KNOWN-FINDING lines are the verdict.
#  2. if that held: the must-fail corpus of the property (selftest/mutants) is run in scratch worktrees of /repo HEAD
#     (outside /repo and /verif, removed afterwards); the score is merged into the evidence file. A missed mutant
#     is printed as SELFTEST-MISS (a weakness of the check, not a violation of the property) and does not change the verdict.
cd "$(dirname "$0")/.." || exit 2
prop="$1"
[ -n "$prop" ] || { echo "usage: tools/thorough.sh <property id>"; exit 2; }
export GOFLAGS=-mod=mod GOPROXY=off GOSUMDB=off GOTOOLCHAIN=local
./bin/govc check -property "$prop" -tier thorough
rc=$?
[ $rc -eq 0 ] || exit $rc
out=$(python3 tools/selftest.py "$prop" 2>&1)
python3 - "$prop" <<PY
import json, sys, re
prop = sys.argv[1]
out = """$out"""
det = len(re.findall(r"'DETECTED'", out)); mis = re.findall(r"^(\S+) \[.*MISSED", out, re.M)
p = "evidence/%s.json" % prop
e = json.load(open(p))
e["coverage"]["must_fail_corpus"] = {"mutants_run": det + len(mis), "detected": det, "missed": mis,
    "rule": "each mutant is a hand-written property-breaking change (selftest/mutants/*.patch) applied to a scratch worktree of /repo HEAD; detected = the quick check of this property exits 1 with a VIOLATION line"}
json.dump(e, open(p, "w"), indent=1)
for m in mis: print("SELFTEST-MISS property=%s mutant=%s" % (prop, m))
print("must-fail corpus: %d/%d detected" % (det, det + len(mis)))
PY
exit 0
