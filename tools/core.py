#!/usr/bin/env python3
"""Debug helper: unsat core of an SMT file produced by govc (-keep). Usage: core.py file.smt2"""
import sys,re,subprocess
src=open(sys.argv[1]).read().split('\n')
out=[];n=0
for l in src:
    if l.startswith('(assert ') :
        n+=1; out.append('(assert (! %s :named a%d))'%(l[8:-1],n))
    elif l.startswith('(check-sat'):
        out.append('(check-sat)'); out.append('(get-unsat-core)')
    elif l.startswith('(get-value'): pass
    elif l.startswith('(set-option :produce-models'): out.append('(set-option :produce-unsat-cores true)')
    else: out.append(l)
open('/tmp/core.smt2','w').write('\n'.join(out))
r=subprocess.run(['z3','-T:20','/tmp/core.smt2'],capture_output=True,text=True).stdout
print(r[:300])
lines=r.split('\n')
core=re.findall(r'a(\d+)',lines[1]) if len(lines)>1 else []
asserts=[l for l in src if l.startswith('(assert ')]
defs={m.group(1):m.group(2) for m in (re.match(r'\(define-fun (t!\d+) \(\) \S+ (.*)\)$',l) for l in src) if m}
def expand(s,depth=0):
    if depth>6: return s
    return re.sub(r't!\d+',lambda m: expand(defs.get(m.group(0),m.group(0)),depth+1),s)
for c in core:
    print('---',c, expand(asserts[int(c)-1])[:1500])
