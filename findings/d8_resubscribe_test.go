package mqtt

// Demonstration for finding D8 (C08): an Unsubscribe that waits in the retry queue is overtaken by
// the Resubscribe snapshot: the wire shows UNSUBSCRIBE y and then SUBSCRIBE y although the
// application's last word was Unsubscribe(y).
//   go test -overlay <mapping /repo/zz_d8_test.go to this file> -run TestVerifD8 .

import (
	"context"
	"errors"
	"io"
	"sync"
	"testing"
	"time"
)

type d8Transport struct {
	mu      sync.Mutex
	written [][]byte
	rd      *io.PipeReader
	wr      *io.PipeWriter
}

func (t *d8Transport) Read(p []byte) (int, error) { return t.rd.Read(p) }
func (t *d8Transport) Close() error               { t.wr.Close(); return t.rd.Close() }
func (t *d8Transport) Write(p []byte) (int, error) {
	t.mu.Lock()
	t.written = append(t.written, append([]byte{}, p...))
	t.mu.Unlock()
	switch p[0] {
	case 0x10:
		go t.wr.Write([]byte{0x20, 0x02, 0x00, 0x00})
	case 0x82: // SUBSCRIBE -> SUBACK (one filter)
		go t.wr.Write([]byte{0x90, 0x03, p[2], p[3], 0x00})
	case 0xA2: // UNSUBSCRIBE -> UNSUBACK
		go t.wr.Write([]byte{0xB0, 0x02, p[2], p[3]})
	}
	return len(p), nil
}

func TestVerifD8(t *testing.T) {
	r, w := io.Pipe()
	tr := &d8Transport{rd: r, wr: w}
	cli := &BaseClient{Transport: tr}
	ctx, cancel := context.WithTimeout(context.Background(), 2*time.Second)
	defer cancel()
	if _, err := cli.Connect(ctx, "c"); err != nil {
		t.Fatal(err)
	}
	c := &RetryClient{}
	c.subEstablished = subscriptions{{Topic: "y", QoS: QoS1}} // the application subscribed y earlier
	pending := func(context.Context, *BaseClient) error { return nil }
	c.retryQueue = []retryFn{pending}        // some request is still waiting for the new connection
	c.unsubscribe(ctx, cli, "y")             // application: Unsubscribe(y) -> queued behind it
	if len(c.retryQueue) != 2 {
		t.Fatalf("setup: expected the unsubscribe to be deferred, queue length %d", len(c.retryQueue))
	}
	// session-less reconnect: Resubscribe, then Retry (the order used by the reconnect loop)
	c.Resubscribe(ctx)
	c.Retry(ctx)
	for _, task := range c.taskQueue {
		task(ctx, cli)
	}
	tr.mu.Lock()
	var kinds []byte
	for _, p := range tr.written {
		kinds = append(kinds, p[0])
	}
	tr.mu.Unlock()
	t.Logf("packets on the wire (first bytes): % x; established list afterwards: %v", kinds, c.subEstablished)
	last := byte(0)
	for _, k := range kinds {
		if k == 0x82 || k == 0xA2 {
			last = k
		}
	}
	if last == 0x82 {
		t.Errorf("D8: the last request for filter y on the wire is SUBSCRIBE although the application unsubscribed it")
	}
	_ = errors.New
}
