package mqtt

// Demonstration for defect D5 (C16): the keep-alive goroutine of a connection that has already been
// replaced reports its (cancellation) error on the *current* client: the healthy, re-established
// connection gets Err() = "keeping alive: context canceled".
//   go test -overlay <mapping /repo/zz_d5_test.go to this file> -run TestVerifD5 .

import (
	"context"
	"io"
	"sync"
	"testing"
	"time"
)

type d5Transport struct {
	rd *io.PipeReader
	wr *io.PipeWriter
}

func (t *d5Transport) Read(p []byte) (int, error) { return t.rd.Read(p) }
func (t *d5Transport) Close() error               { t.wr.Close(); return t.rd.Close() }
func (t *d5Transport) Write(p []byte) (int, error) {
	switch p[0] {
	case 0x10:
		go t.wr.Write([]byte{0x20, 0x02, 0x00, 0x00})
	case 0xC0:
		go t.wr.Write([]byte{0xD0, 0x00})
	}
	return len(p), nil
}

func TestVerifD5(t *testing.T) {
	var mu sync.Mutex
	var clients []*BaseClient
	var transports []*d5Transport
	dialer := DialerFunc(func(ctx context.Context) (*BaseClient, error) {
		r, w := io.Pipe()
		tr := &d5Transport{rd: r, wr: w}
		cli := &BaseClient{Transport: tr}
		mu.Lock()
		clients = append(clients, cli)
		transports = append(transports, tr)
		mu.Unlock()
		return cli, nil
	})
	rc, err := NewReconnectClient(dialer,
		WithPingInterval(50*time.Millisecond), WithTimeout(200*time.Millisecond),
		WithReconnectWait(5*time.Millisecond, 10*time.Millisecond))
	if err != nil {
		t.Fatal(err)
	}
	ctx, cancel := context.WithTimeout(context.Background(), 5*time.Second)
	defer cancel()
	if _, err := rc.Connect(ctx, "c"); err != nil {
		t.Fatal(err)
	}
	// the peer drops the first connection right away: the loop redials
	mu.Lock()
	first := transports[0]
	mu.Unlock()
	first.wr.CloseWithError(io.ErrUnexpectedEOF)
	deadline := time.Now().Add(2 * time.Second)
	for {
		mu.Lock()
		n := len(clients)
		mu.Unlock()
		if n >= 2 || time.Now().After(deadline) {
			break
		}
		time.Sleep(time.Millisecond)
	}
	// give the first connection's keep-alive goroutine time for its next tick
	time.Sleep(300 * time.Millisecond)
	mu.Lock()
	defer mu.Unlock()
	if len(clients) != 2 {
		t.Fatalf("setup: expected exactly one reconnect, have %d clients", len(clients))
	}
	second := clients[1]
	select {
	case <-second.Done():
		t.Fatalf("setup: second connection ended")
	default:
	}
	if err := second.Err(); err != nil {
		t.Errorf("D5: the healthy second connection reports Err() = %v (error of the first connection's keep-alive goroutine)", err)
	}
}
