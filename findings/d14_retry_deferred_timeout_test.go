package mqtt

// Demonstration for defect D14 (C01/C18), a regression introduced by the first repair of D9 (b5a255b):
// Retry hands every queued entry a request-timeout context. A *deferred* request (queued behind the retry
// queue, never transmitted) treats Done() of the context it is given as "the user cancelled, do not queue":
// when its acknowledgement is dropped and the response timeout fires, the accepted request is discarded.
//   go test -overlay <mapping /repo/zz_d14_test.go to this file> -run TestVerifD14 .

import (
	"context"
	"io"
	"sync"
	"testing"
	"time"
)

type d14Transport struct {
	mu        sync.Mutex
	rd        *io.PipeReader
	wr        *io.PipeWriter
	publishes []string
	ackTopic  map[string]bool
}

func (t *d14Transport) Read(p []byte) (int, error) { return t.rd.Read(p) }
func (t *d14Transport) Close() error               { t.wr.Close(); return t.rd.Close() }
func (t *d14Transport) Write(p []byte) (int, error) {
	switch p[0] & 0xF0 {
	case 0x10:
		go t.wr.Write([]byte{0x20, 0x02, 0x00, 0x00})
	case 0x30: // PUBLISH qos1: 3x, len, topic len(2), topic, id(2), payload
		tl := int(p[2])<<8 | int(p[3])
		topic := string(p[4 : 4+tl])
		id := []byte{p[4+tl], p[5+tl]}
		t.mu.Lock()
		t.publishes = append(t.publishes, topic)
		ack := t.ackTopic[topic]
		t.mu.Unlock()
		if ack {
			go t.wr.Write([]byte{0x40, 0x02, id[0], id[1]})
		}
	}
	return len(p), nil
}

func newD14Transport(ack ...string) *d14Transport {
	r, w := io.Pipe()
	t := &d14Transport{rd: r, wr: w, ackTopic: map[string]bool{}}
	for _, a := range ack {
		t.ackTopic[a] = true
	}
	return t
}

func TestVerifD14(t *testing.T) {
	ctx, cancel := context.WithTimeout(context.Background(), 5*time.Second)
	defer cancel()
	c := &RetryClient{ResponseTimeout: 100 * time.Millisecond}

	// connection 1: nothing is acknowledged. A times out and is queued for retry; B is submitted meanwhile and deferred.
	t1 := newD14Transport()
	cli1 := &BaseClient{Transport: t1}
	c.SetClient(ctx, cli1)
	if _, err := c.Connect(ctx, "c"); err != nil {
		t.Fatal(err)
	}
	c.Publish(ctx, &Message{Topic: "A", QoS: QoS1})
	<-cli1.Done() // response timeout -> connection closed by the task loop
	c.Publish(ctx, &Message{Topic: "B", QoS: QoS1})
	time.Sleep(50 * time.Millisecond)
	if n := c.Stats().QueuedRetries; n != 2 {
		t.Fatalf("setup: want 2 queued retries (A's handle, deferred B), have %d", n)
	}

	// connection 2: A is acknowledged, B's acknowledgement is dropped -> response timeout of B
	t2 := newD14Transport("A")
	cli2 := &BaseClient{Transport: t2}
	c.SetClient(ctx, cli2)
	if _, err := c.Connect(ctx, "c"); err != nil {
		t.Fatal(err)
	}
	c.Retry(ctx)
	select {
	case <-cli2.Done():
	case <-time.After(time.Second):
		t.Errorf("D14: connection 2 is not closed although the response timeout of B expired on it")
	}
	time.Sleep(50 * time.Millisecond)
	if n := c.Stats().QueuedRetries; n != 1 {
		t.Errorf("D14: B was accepted, transmitted once, timed out - and is no longer queued for retransmission (queued retries = %d, want 1)", n)
	}

	// connection 3: everything is acknowledged; B must arrive
	t3 := newD14Transport("A", "B")
	cli3 := &BaseClient{Transport: t3}
	c.SetClient(ctx, cli3)
	if _, err := c.Connect(ctx, "c"); err != nil {
		t.Fatal(err)
	}
	c.Retry(ctx)
	time.Sleep(300 * time.Millisecond)
	t3.mu.Lock()
	defer t3.mu.Unlock()
	found := false
	for _, p := range t3.publishes {
		if p == "B" {
			found = true
		}
	}
	if !found {
		t.Errorf("D14: accepted QoS1 publish B is never retransmitted (connection 3 saw %v)", t3.publishes)
	}
}
