package mqtt

// Demonstration for finding D4 (properties C02, C12): after PUBREC has been received, a failing
// write of PUBREL returns a retry handle that re-sends PUBLISH (DUP) instead of PUBREL.
// Run (nothing is written into /repo):
//   go test -overlay <overlay mapping /repo/zz_d4_test.go to this file> -run TestVerifD4 .

import (
	"context"
	"errors"
	"io"
	"sync"
	"testing"
	"time"
)

type d4Transport struct {
	mu      sync.Mutex
	written [][]byte
	failOn  byte // first byte of the packet whose write fails
	rd      *io.PipeReader
	wr      *io.PipeWriter
}

func newD4Transport(failOn byte) *d4Transport {
	r, w := io.Pipe()
	return &d4Transport{failOn: failOn, rd: r, wr: w}
}
func (t *d4Transport) Read(p []byte) (int, error) { return t.rd.Read(p) }
func (t *d4Transport) Write(p []byte) (int, error) {
	t.mu.Lock()
	defer t.mu.Unlock()
	if t.failOn != 0 && p[0] == t.failOn {
		return 0, errors.New("link down")
	}
	t.written = append(t.written, append([]byte{}, p...))
	return len(p), nil
}
func (t *d4Transport) Close() error { t.wr.Close(); return t.rd.Close() }
func (t *d4Transport) firstBytes() []byte {
	t.mu.Lock()
	defer t.mu.Unlock()
	var out []byte
	for _, p := range t.written {
		out = append(out, p[0])
	}
	return out
}

func d4Connect(t *testing.T, tr *d4Transport) *BaseClient {
	cli := &BaseClient{Transport: tr}
	go func() { tr.wr.Write([]byte{0x20, 0x02, 0x00, 0x00}) }() // CONNACK accepted
	ctx, cancel := context.WithTimeout(context.Background(), time.Second)
	defer cancel()
	if _, err := cli.Connect(ctx, "c"); err != nil {
		t.Fatal(err)
	}
	return cli
}

func TestVerifD4(t *testing.T) {
	tr1 := newD4Transport(0x62) // PUBREL cannot be written
	cli1 := d4Connect(t, tr1)
	msg := &Message{Topic: "t", QoS: QoS2, ID: 7, Payload: []byte("x")}
	go func() {
		// broker: answer the PUBLISH with PUBREC for id 7
		for len(tr1.firstBytes()) < 2 {
			time.Sleep(time.Millisecond)
		}
		tr1.wr.Write([]byte{0x50, 0x02, 0x00, 0x07})
	}()
	ctx, cancel := context.WithTimeout(context.Background(), time.Second)
	defer cancel()
	err := cli1.Publish(ctx, msg)
	var re ErrorWithRetry
	if !errors.As(err, &re) {
		t.Fatalf("expected retry error, got %v", err)
	}
	// new connection: run the retry handle and look at what it transmits first
	tr2 := newD4Transport(0)
	cli2 := d4Connect(t, tr2)
	ctx2, cancel2 := context.WithTimeout(context.Background(), 100*time.Millisecond)
	defer cancel2()
	_ = re.Retry(ctx2, cli2)
	got := tr2.firstBytes()
	t.Logf("packets written on the second connection (first bytes): % x", got)
	if len(got) < 2 || got[1] != 0x62 {
		t.Fatalf("D4: after PUBREC the retry handle must send PUBREL (0x62) only, sent % x", got)
	}
}
