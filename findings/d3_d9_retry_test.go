package mqtt

// Demonstrations for findings D3 (C01/C02/C03/C12) and D9 (C18) in RetryClient.Retry.
// Run with an overlay (nothing is written into /repo):
//   go test -overlay <mapping /repo/zz_d3_test.go to this file> -run 'TestVerifD3|TestVerifD9' .

import (
	"context"
	"errors"
	"testing"
	"time"
)

type d3RetryErr struct {
	error
	next retryFn
}

func (e *d3RetryErr) Retry(ctx context.Context, cli *BaseClient) error { return e.next(ctx, cli) }

// runs the task that RetryClient.Retry pushes, in the calling goroutine
func d3RunRetry(c *RetryClient) {
	c.Retry(context.Background())
	task := c.taskQueue[len(c.taskQueue)-1]
	c.taskQueue = c.taskQueue[:len(c.taskQueue)-1]
	task(context.Background(), &BaseClient{})
}

func TestVerifD3(t *testing.T) {
	var calls []string
	cont1 := func(context.Context, *BaseClient) error { calls = append(calls, "cont1"); return nil }
	f0 := func(context.Context, *BaseClient) error { calls = append(calls, "f0"); return nil } // acknowledged
	f1 := func(context.Context, *BaseClient) error {
		calls = append(calls, "f1")
		return &d3RetryErr{errors.New("link down"), cont1}
	}
	f2 := func(context.Context, *BaseClient) error { calls = append(calls, "f2"); return nil }
	c := &RetryClient{}
	c.retryQueue = []retryFn{f0, f1, f2}
	d3RunRetry(c)
	t.Logf("first pass invoked %v, queue length now %d", calls, len(c.retryQueue))
	if len(c.retryQueue) != 2 {
		t.Errorf("D3: after f1 failed the queue must hold its continuation and f2 (2 entries), has %d", len(c.retryQueue))
	}
	calls = nil
	d3RunRetry(c)
	t.Logf("second pass invoked %v", calls)
	for _, n := range calls {
		if n == "f0" || n == "f1" {
			t.Errorf("D3: %s was run again although it had completed / been replaced by its continuation", n)
		}
	}
}

func TestVerifD9(t *testing.T) {
	var sawDeadline bool
	var reported []error
	f := func(ctx context.Context, cli *BaseClient) error {
		_, sawDeadline = ctx.Deadline()
		return &d3RetryErr{errors.New("no answer"), func(context.Context, *BaseClient) error { return nil }}
	}
	c := &RetryClient{ResponseTimeout: 50 * time.Millisecond, OnError: func(err error) { reported = append(reported, err) }}
	c.retryQueue = []retryFn{f}
	d3RunRetry(c)
	if !sawDeadline {
		t.Errorf("D9: a retransmission is invoked without the response timeout (context has no deadline)")
	}
	if len(reported) == 0 {
		t.Errorf("D9: the failed retransmission was not reported through OnError")
	}
	if !c.newRetryByError {
		t.Errorf("D9: the connection is not scheduled for closing after a failed retransmission")
	}
}
