package mqtt

// Demonstrations (run with -race) for the data races found by failing C10 guard obligations:
//   D10 RetryClient.Stats reads retryQueue, which the task goroutine writes without a lock
//   D11 BaseClient.Connect runs init() (writes sig, connClosed) before taking muConnecting
//   D12 RetryClient.SetClient reads/writes chTask without mu while pushTask reads it under mu
//   D13 BaseClient.Connect writes sig.chConnAck under c.mu; the reader reads it under sig.mu
//   go test -race -overlay <mapping /repo/zz_races_test.go to this file> -run 'TestVerifD1[0-3]' .

import (
	"context"
	"io"
	"sync"
	"testing"
	"time"
)

type raceTransport struct {
	rd        *io.PipeReader
	wr        *io.PipeWriter
	earlyAck  bool
	dropAcks  bool
	onConnect func()
}

func (t *raceTransport) Read(p []byte) (int, error) { return t.rd.Read(p) }
func (t *raceTransport) Close() error               { t.wr.Close(); return t.rd.Close() }
func (t *raceTransport) Write(p []byte) (int, error) {
	switch p[0] {
	case 0x10:
		if !t.earlyAck {
			go t.wr.Write([]byte{0x20, 0x02, 0x00, 0x00})
		}
	case 0xC0:
		go t.wr.Write([]byte{0xD0, 0x00})
	}
	return len(p), nil
}

func newRaceTransport() *raceTransport {
	r, w := io.Pipe()
	return &raceTransport{rd: r, wr: w}
}

// D10: Stats() while the task goroutine appends to retryQueue.
func TestVerifD10(t *testing.T) {
	tr := newRaceTransport()
	cli := &BaseClient{Transport: tr}
	c := &RetryClient{}
	ctx, cancel := context.WithTimeout(context.Background(), 3*time.Second)
	defer cancel()
	c.SetClient(ctx, cli)
	if _, err := c.Connect(ctx, "c"); err != nil {
		t.Fatal(err)
	}
	var wg sync.WaitGroup
	stop := make(chan struct{})
	wg.Add(1)
	go func() {
		defer wg.Done()
		for {
			select {
			case <-stop:
				return
			default:
				_ = c.Stats()
			}
		}
	}()
	// QoS1 publishes are never acknowledged by this transport; close it so that they fail and are queued for retry
	for i := 0; i < 20; i++ {
		c.Publish(ctx, &Message{Topic: "a", QoS: QoS1, Payload: []byte{byte(i)}})
	}
	time.Sleep(50 * time.Millisecond)
	tr.Close()
	time.Sleep(200 * time.Millisecond)
	close(stop)
	wg.Wait()
}

// D11: a Ping loop on a not-yet-connected client while Connect starts.
func TestVerifD11(t *testing.T) {
	for i := 0; i < 20; i++ {
		tr := newRaceTransport()
		cli := &BaseClient{Transport: tr}
		ctx, cancel := context.WithTimeout(context.Background(), 2*time.Second)
		stop := make(chan struct{})
		var wg sync.WaitGroup
		wg.Add(1)
		go func() {
			defer wg.Done()
			for {
				select {
				case <-stop:
					return
				default:
					pctx, pc := context.WithTimeout(ctx, time.Millisecond)
					_ = cli.Ping(pctx) // ErrNotConnected until Connect has run
					pc()
				}
			}
		}()
		time.Sleep(2 * time.Millisecond)
		if _, err := cli.Connect(ctx, "c"); err != nil {
			t.Fatal(err)
		}
		close(stop)
		wg.Wait()
		cli.Close()
		cancel()
	}
}

// D12: Publish from an application goroutine while the first SetClient runs.
func TestVerifD12(t *testing.T) {
	for i := 0; i < 50; i++ {
		c := &RetryClient{}
		ctx, cancel := context.WithTimeout(context.Background(), time.Second)
		var wg sync.WaitGroup
		wg.Add(1)
		go func() {
			defer wg.Done()
			for j := 0; j < 100; j++ {
				c.Publish(ctx, &Message{Topic: "a", QoS: QoS0})
			}
		}()
		c.SetClient(ctx, &BaseClient{Transport: newRaceTransport()})
		wg.Wait()
		cancel()
	}
}

// D13: a peer that sends CONNACK before it has seen CONNECT.
func TestVerifD13(t *testing.T) {
	for i := 0; i < 50; i++ {
		tr := newRaceTransport()
		tr.earlyAck = true
		cli := &BaseClient{Transport: tr}
		ctx, cancel := context.WithTimeout(context.Background(), 2*time.Second)
		go tr.wr.Write([]byte{0x20, 0x02, 0x00, 0x00}) // unsolicited CONNACK, available as soon as the reader starts
		cli.Connect(ctx, "c")
		cli.Close()
		cancel()
	}
}
